// threads.go: cooperative threads for `go` statements. One interpreted goroutine runs at a time (each on its own
// Go goroutine, a baton is handed over through channels); the *schedule* is an input of the path: at every
// scheduling point the next thread to run is a logged decision, so the depth-first exploration enumerates every
// schedule within the bound (switches happen where a thread blocks, yields, is spawned or ends, and — up to the
// job's `preempt` budget — before a mutex acquire / after a release / at channel operations).
// A happens-before data-race detector (vector clocks; mutexes, channels, wait groups, atomics, once and spawn as
// synchronisation) watches every load and store the interpreter executes, so a race is reported on whichever
// schedule it is *possible*, not only on the schedule where it bites.
package main

import (
	"fmt"
	"sort"
)

type vclock map[int]int

func (v vclock) copy() vclock {
	c := make(vclock, len(v))
	for k, x := range v {
		c[k] = x
	}
	return c
}
func (v vclock) join(o vclock) {
	for k, x := range o {
		if x > v[k] {
			v[k] = x
		}
	}
}

type thrSig int

const (
	sigRun thrSig = iota
	sigKill
	sigAbort
)

type thread struct {
	id      int
	resume  chan thrSig
	gone    chan struct{} // closed when the Go goroutine carrying the thread has ended
	done    bool
	started bool
	blocked func() bool // nil = runnable; otherwise runnable when it returns true
	what    string
	vc      vclock
	// per-thread interpreter state
	stack     []string
	callDepth int
	panicking *goPanic
	body      func()
}

type threadKilled struct{}
type deadlockPath struct{ msg string }
type racePath struct{ msg string }

type accessRec struct {
	path  []int
	tid   int
	clock int
	write bool
	where string
}

func (e *Engine) mt() bool { return len(e.threads) > 1 }

func (e *Engine) initThreads() {
	if e.threads != nil {
		return
	}
	m := &thread{id: 0, resume: make(chan thrSig), vc: vclock{0: 1}, started: true}
	e.threads = []*thread{m}
	e.cur = m
	e.syncVC = map[string]vclock{}
	e.access = map[*Obj][]accessRec{}
	e.mapAccess = map[*MapObj][]accessRec{}
	e.mtEver = true
	p := 0
	if v, ok := e.confVal("preempt"); ok {
		switch x := v.(type) {
		case float64:
			p = int(x)
		case int:
			p = x
		}
	}
	e.preemptLeft = p
}

// spawnThread implements the go statement
func (e *Engine) spawnThread(body func(), what string) {
	e.initThreads()
	if len(e.threads) >= 8 {
		panic(boundExceeded{"more than 8 threads"})
	}
	parent := e.cur
	t := &thread{id: len(e.threads), resume: make(chan thrSig), gone: make(chan struct{}), vc: parent.vc.copy(), body: body, what: what}
	t.vc[t.id] = 1
	parent.vc[parent.id]++
	e.threads = append(e.threads, t)
	go e.threadMain(t)
	e.schedPoint("go")
}

func (e *Engine) threadMain(t *thread) {
	defer close(t.gone)
	sig := <-t.resume
	if sig != sigRun {
		return
	}
	t.started = true
	var failure any
	func() {
		defer func() {
			if r := recover(); r != nil {
				failure = r
			}
		}()
		t.body()
	}()
	if _, ok := failure.(threadKilled); ok {
		return
	}
	t.done = true
	t.vc[t.id]++
	if failure != nil {
		// an uncaught panic in any goroutine ends the program; engine conditions (bound, unsupported, infeasible
		// path ...) end the path: hand the value to the main thread, which re-raises it on its own stack
		e.abortWith(failure)
		return
	}
	// thread ended: pick who runs next
	next := e.pickNext(nil)
	if next == nil {
		e.abortWith(deadlockPath{e.deadlockMsg()})
		return
	}
	e.handTo(next)
}

func (e *Engine) abortWith(v any) {
	m := e.threads[0]
	e.aborting = true
	e.abortVal = v
	e.cur = m
	e.stack, e.callDepth, e.panicking = m.stack, m.callDepth, m.panicking
	m.resume <- sigAbort
}

func (e *Engine) handTo(n *thread) {
	e.cur = n
	e.stack, e.callDepth, e.panicking = n.stack, n.callDepth, n.panicking
	n.blocked = nil
	n.resume <- sigRun
}

// switchTo parks the current thread and runs n
func (e *Engine) switchTo(n *thread) {
	c := e.cur
	if n == c {
		return
	}
	c.stack, c.callDepth, c.panicking = e.stack, e.callDepth, e.panicking
	e.handTo(n)
	sig := <-c.resume
	switch sig {
	case sigKill:
		panic(threadKilled{})
	case sigAbort:
		v := e.abortVal
		panic(v)
	}
}

func (e *Engine) runnable(t *thread) bool {
	return !t.done && (t.blocked == nil || t.blocked())
}

// pickNext chooses (a logged decision) among the runnable threads other than `except`; nil if none
func (e *Engine) pickNext(except *thread) *thread {
	var rs []*thread
	for _, t := range e.threads {
		if t != except && e.runnable(t) {
			rs = append(rs, t)
		}
	}
	if len(rs) == 0 {
		return nil
	}
	if len(rs) == 1 {
		return rs[0]
	}
	return rs[e.schedChoice(len(rs))]
}

func (e *Engine) schedChoice(n int) int {
	key := e.inputName("sched")
	if e.concrete {
		return int(e.vector[key] % uint64(n))
	}
	c := e.chooseN(n)
	e.chosen[key] = uint64(c)
	return c
}

func (e *Engine) deadlockMsg() string {
	var parts []string
	for _, t := range e.threads {
		if !t.done {
			parts = append(parts, fmt.Sprintf("thread %d waits for %s", t.id, t.what))
		}
	}
	sort.Strings(parts)
	return "all goroutines are asleep: " + fmt.Sprint(parts)
}

// waitFor blocks the current thread until cond holds
func (e *Engine) waitFor(cond func() bool, what string) {
	for !cond() {
		if e.aborting {
			panic(blockedPath{"blocked while unwinding: " + what})
		}
		if !e.mt() {
			panic(blockedPath{what + " (no other goroutine exists)"})
		}
		c := e.cur
		c.blocked, c.what = cond, what
		n := e.pickNext(c)
		if n == nil {
			panic(deadlockPath{e.deadlockMsg()})
		}
		e.switchTo(n)
		c.blocked = nil
	}
}

// freeYield: a scheduling point that costs no preemption budget (spawn, Gosched, Sleep, vYield)
func (e *Engine) freeYield(what string) {
	if !e.mt() || e.aborting || e.noSched > 0 {
		return
	}
	c := e.cur
	c.what = what
	var rs []*thread
	for _, t := range e.threads {
		if e.runnable(t) || t == c {
			rs = append(rs, t)
		}
	}
	if len(rs) < 2 {
		return
	}
	// current thread first: choice 0 = keep running
	sort.SliceStable(rs, func(i, j int) bool { return rs[i] == c && rs[j] != c })
	n := rs[e.schedChoice(len(rs))]
	e.switchTo(n)
}

// schedPoint: a preemption point (before acquire / after release / channel operation); bounded by the job's budget
func (e *Engine) schedPoint(what string) {
	if !e.mt() || e.aborting || e.preemptLeft <= 0 || e.noSched > 0 {
		return
	}
	c := e.cur
	var rs []*thread
	for _, t := range e.threads {
		if t != c && e.runnable(t) {
			rs = append(rs, t)
		}
	}
	if len(rs) == 0 {
		return
	}
	k := e.schedChoice(len(rs) + 1)
	if k == 0 {
		return
	}
	e.preemptLeft--
	c.what = what
	e.switchTo(rs[k-1])
}

// ---- happens-before ----

func (e *Engine) acquire(key string) {
	if !e.mt() {
		return
	}
	if l, ok := e.syncVC[key]; ok {
		e.cur.vc.join(l)
	}
}

func (e *Engine) release(key string) {
	if !e.mt() {
		return
	}
	l, ok := e.syncVC[key]
	if !ok {
		l = vclock{}
		e.syncVC[key] = l
	}
	l.join(e.cur.vc)
	e.cur.vc[e.cur.id]++
}

func prefixRelated(a, b []int) bool {
	n := len(a)
	if len(b) < n {
		n = len(b)
	}
	for i := 0; i < n; i++ {
		if a[i] != b[i] {
			return false
		}
	}
	return true
}

func (e *Engine) checkAccess(recs []accessRec, path []int, write bool, what string) []accessRec {
	c := e.cur
	me := c.vc[c.id]
	out := recs[:0]
	for _, r := range recs {
		if r.tid == c.id {
			if prefixRelated(r.path, path) && len(r.path) >= len(path) && (write || !r.write) {
				continue // superseded by this access
			}
			out = append(out, r)
			continue
		}
		if prefixRelated(r.path, path) && (write || r.write) && r.clock > c.vc[r.tid] {
			kind := "read"
			if write {
				kind = "write"
			}
			okind := "read"
			if r.write {
				okind = "write"
			}
			panic(racePath{fmt.Sprintf("data race: %s of %s by goroutine %d at %s is concurrent with the %s by goroutine %d at %s",
				kind, what, c.id, e.topFrame(), okind, r.tid, r.where)})
		}
		if write && prefixRelated(r.path, path) && len(r.path) >= len(path) && r.clock <= c.vc[r.tid] {
			continue // ordered before this write and covered by it
		}
		out = append(out, r)
	}
	out = append(out, accessRec{path: append([]int{}, path...), tid: c.id, clock: me, write: write, where: e.topFrame()})
	return out
}

func (e *Engine) topFrame() string {
	if len(e.stack) == 0 {
		return "?"
	}
	return e.stack[len(e.stack)-1]
}

func (e *Engine) raceObj(o *Obj, path []int, write bool) {
	if !e.mt() || e.noRace > 0 || e.aborting {
		return
	}
	e.access[o] = e.checkAccess(e.access[o], path, write, fmt.Sprintf("object #%d%v", o.id, path))
}

func (e *Engine) raceMap(m *MapObj, write bool) {
	if !e.mt() || e.noRace > 0 || e.aborting {
		return
	}
	e.mapAccess[m] = e.checkAccess(e.mapAccess[m], nil, write, fmt.Sprintf("map #%d", m.id))
}

// killThreads ends every thread that is still parked (end of a path)
func (e *Engine) killThreads() {
	for _, t := range e.threads[1:] {
		if t.done {
			<-t.gone
			continue
		}
		select {
		case <-t.gone:
		default:
			t.resume <- sigKill
			<-t.gone
		}
	}
	e.threads = nil
	e.cur = nil
}
