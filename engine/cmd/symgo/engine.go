// engine.go: path exploration (DFS over decision sequences by re-execution), solver-guided
// branching, case splits, intrinsics of the harness language.
package main

import (
	"fmt"
	"go/types"
	"sort"
	"strings"
	"sync"
	"time"

	"golang.org/x/tools/go/ssa"
)

// Dec is one entry of the decision log. Branches: Yes = side taken. Case splits: V = candidate
// value, Yes = "the split value equals V".
type Dec struct {
	V   uint64 `json:"v,omitempty"`
	Yes bool   `json:"y"`
}

type Job struct {
	ID       string                 `json:"id"`
	Func     string                 `json:"func"`
	Conf     map[string]any         `json:"conf,omitempty"`
	Unwind   int                    `json:"unwind,omitempty"`
	MaxPaths int                    `json:"max_paths,omitempty"`
	MapOrder bool                   `json:"map_order,omitempty"` // fork over map iteration orders
	MapOrderMode string             `json:"map_order_mode,omitempty"` // "rotations" (default) | "permutations"
	Vectors  []map[string]uint64    `json:"vectors,omitempty"`   // concrete mode: one run per vector
	Concrete bool                   `json:"concrete,omitempty"`
	ResetMode bool                  `json:"reset_mode,omitempty"` // pose every query from scratch instead of push/pop
	Expect   string                 `json:"expect,omitempty"` // informational (e.g. "sat" for reachability twins)
	Witnesses int                   `json:"witnesses,omitempty"` // collect a model for up to this many completed paths
	Extra    map[string]interface{} `json:"extra,omitempty"`
}

type Violation struct {
	Label  string            `json:"label"`
	Kind   string            `json:"kind"` // assert | panic
	Model  map[string]uint64 `json:"model"`
	Path   []Dec             `json:"path"`
	Status string            `json:"status"` // sat | unknown
	Msg    string            `json:"msg,omitempty"`
	Stack  string            `json:"stack,omitempty"`
}

type Result struct {
	ID            string             `json:"id"`
	Func          string             `json:"func"`
	Conf          map[string]any     `json:"conf,omitempty"`
	Paths         int                `json:"paths"`
	Pruned        int                `json:"pruned"` // paths ended by infeasibility / failed assumption
	Decisions     int                `json:"decisions"`
	Asserts       int                `json:"asserts"`    // assertion instances posed
	Discharged    int                `json:"discharged"` // of which unsat (or concretely true)
	Violations    []Violation        `json:"violations,omitempty"`
	NViolations   int                `json:"n_violations"`
	Inconclusive  []string           `json:"inconclusive,omitempty"`
	Unsupported   string             `json:"unsupported,omitempty"`
	BoundExceeded string             `json:"bound_exceeded,omitempty"`
	Blocked       int                `json:"blocked,omitempty"`
	EngineError   string             `json:"engine_error,omitempty"`
	Covers        map[string]int     `json:"covers"`
	Funcs         map[string]int     `json:"funcs"`
	Stubs         map[string]int     `json:"stubs"`
	Assumes       map[string]int     `json:"assumes"`
	Queries       int                `json:"queries"`
	Sat           int                `json:"sat"`
	Unsat         int                `json:"unsat"`
	Unknown       int                `json:"unknown"`
	SolverS       float64            `json:"solver_s"`
	WallS         float64            `json:"wall_s"`
	Instrs        int                `json:"instrs"`
	Unwind        int                `json:"unwind"`
	SampleQuery   string             `json:"sample_query,omitempty"`
	SampleModel   map[string]uint64  `json:"sample_model,omitempty"`
	SamplePathLen int                `json:"sample_path_len,omitempty"`
	Observations  [][]string         `json:"observations,omitempty"`
	Witnesses     []map[string]uint64 `json:"witnesses,omitempty"`
	MaxPathsHit   bool               `json:"max_paths_hit,omitempty"`
	Labels        map[string][2]int  `json:"labels,omitempty"` // per assertion label: [posed, discharged]
	QueryFiles    []string           `json:"query_files,omitempty"`
	mu            sync.Mutex
	start         time.Time
	outstanding   int
	job           *Job
	fn            *ssa.Function
	dumped        int
}

type workItem struct {
	res    *Result
	prefix []Dec
	vector map[string]uint64
}

type Engine struct {
	prog   *ssa.Program
	root   *ssa.Package
	sol    *Solver
	cfg    *Config
	prefix []Dec
	taken  []Dec
	spawn  func(prefix []Dec) // register a sibling path
	res    *Result
	job    *Job

	nsym      int
	inputs    []string          // solver symbols of harness inputs
	inputKey  map[string]string // solver symbol -> "name#k"
	nameCount map[string]int
	chosen    map[string]uint64 // concrete choices made via vChoose/case splits: "name#k" -> value
	vector    map[string]uint64 // concrete mode
	concrete  bool
	obs       []string

	instrs      int
	symBranches int
	decisions   int
	globals     map[*ssa.Global]*Obj
	pristine       map[*ssa.Global]*Obj
	pristineInited map[*ssa.Package]bool
	inPristine     bool
	copyMap        map[*Obj]*Obj
	copyMaps       map[*MapObj]*MapObj
	boxes          []boxed // boxed codec table (per path)
	clock          int     // readings of time.Now on this path
	stack       []string
	objID       int
	opaqueT     types.Type
	panicking   *goPanic
	ctxKeys     int
	defs        int
	callDepth   int
	initCost    map[string]int
	prof        map[*ssa.Function]int
	onceDone    map[string]bool
	locks       map[string]int
	wg          map[string]int
	syncMaps    map[string]*MapObj
	randReads   int
	// threads (threads.go)
	threads     []*thread
	cur         *thread
	syncVC      map[string]vclock
	access      map[*Obj][]accessRec
	mapAccess   map[*MapObj][]accessRec
	preemptLeft int
	noSched     int
	noRace      int
	aborting    bool
	abortVal    any
	mtEver      bool
	ctxT, logT  types.Type
	errorIface  *types.Interface
	ctxIfaceT   types.Type
	timeT       types.Type

	// per-path local stats merged into res at the end of the path
	funcs   map[string]int
	stubs   map[string]int
	covers  map[string]int
	assumes map[string]int
	labels  map[string][2]int
	asserts, discharged int
	viols   []Violation
	incon   []string
}

func sanitize(s string) string {
	var sb strings.Builder
	for _, c := range s {
		if (c >= 'a' && c <= 'z') || (c >= 'A' && c <= 'Z') || (c >= '0' && c <= '9') || c == '_' || c == '.' {
			sb.WriteRune(c)
		} else {
			sb.WriteByte('_')
		}
	}
	return sb.String()
}

func (e *Engine) inputName(name string) string {
	k := e.nameCount[name]
	e.nameCount[name] = k + 1
	return fmt.Sprintf("%s#%d", name, k)
}

// freshInput creates a harness input of width w
func (e *Engine) freshInput(name string, w int, signed bool) Int {
	key := e.inputName(name)
	if e.concrete {
		return Int{W: w, S: signed, C: e.vector[key] & mask(w)}
	}
	n := fmt.Sprintf("in_%s_%d", sanitize(key), e.nsym)
	e.nsym++
	e.sol.send(fmt.Sprintf("(declare-const %s (_ BitVec %d))", n, w))
	e.inputs = append(e.inputs, n)
	e.inputKey[n] = key
	return Int{W: w, S: signed, T: n}
}

// internal fresh constant (not a harness input)
func (e *Engine) freshBV(hint string, w int) string {
	n := fmt.Sprintf("k_%s_%d", sanitize(hint), e.nsym)
	e.nsym++
	e.sol.send(fmt.Sprintf("(declare-const %s (_ BitVec %d))", n, w))
	return n
}

// name long terms to keep term strings small (terms are trees in string form)
func (e *Engine) nameBV(t string, w int) string {
	if len(t) < 160 || e.concrete {
		return t
	}
	n := fmt.Sprintf("t_%d", e.defs)
	e.defs++
	e.sol.send(fmt.Sprintf("(define-fun %s () (_ BitVec %d) %s)", n, w, t))
	return n
}
func (e *Engine) nameBool(t string) string {
	if len(t) < 160 || e.concrete {
		return t
	}
	n := fmt.Sprintf("b_%d", e.defs)
	e.defs++
	e.sol.send(fmt.Sprintf("(define-fun %s () Bool %s)", n, t))
	return n
}
func (e *Engine) nameFP(t string, w int) string {
	if len(t) < 160 || e.concrete {
		return t
	}
	n := fmt.Sprintf("f_%d", e.defs)
	e.defs++
	e.sol.send(fmt.Sprintf("(define-fun %s () %s %s)", n, fpSort(w), t))
	return n
}

func (e *Engine) assertTerm(t string) { e.sol.send("(assert " + t + ")") }

func (e *Engine) logDec(d Dec) {
	e.taken = append(e.taken, d)
	e.decisions++
}

// branch decides a (possibly symbolic) condition
func (e *Engine) branch(c Bool) bool {
	if !c.sym() {
		return c.C
	}
	e.symBranches++
	if len(e.taken) < len(e.prefix) {
		d := e.prefix[len(e.taken)]
		e.logDec(d)
		if d.Yes {
			e.assertTerm(c.T)
		} else {
			e.assertTerm("(not " + c.T + ")")
		}
		return d.Yes
	}
	t := e.sol.checkWith(c.T)
	if t == "unsat" {
		// forced false (the path condition itself is satisfiable by construction)
		e.logDec(Dec{Yes: false})
		return false
	}
	f := e.sol.checkWith("(not " + c.T + ")")
	if f == "unsat" {
		e.logDec(Dec{Yes: true})
		if t == "unknown" {
			e.assertTerm(c.T)
		}
		return true
	}
	// both sides kept (unknown keeps the side: sound, more paths)
	sib := append(append([]Dec{}, e.taken...), Dec{Yes: false})
	e.spawn(sib)
	e.logDec(Dec{Yes: true})
	e.assertTerm(c.T)
	return true
}

// decide: unconstrained binary choice recorded in the decision log (true first)
func (e *Engine) decide() bool {
	if len(e.taken) < len(e.prefix) {
		d := e.prefix[len(e.taken)]
		e.logDec(d)
		return d.Yes
	}
	sib := append(append([]Dec{}, e.taken...), Dec{Yes: false})
	e.spawn(sib)
	e.logDec(Dec{Yes: true})
	return true
}

// chooseN: index in [0,n) by unary decisions
func (e *Engine) chooseN(n int) int {
	for i := 0; i < n-1; i++ {
		if e.decide() {
			return i
		}
	}
	return n - 1
}

const maxSplit = 70

// concretize case-splits a symbolic integer over its feasible values under the path condition
func (e *Engine) concretize(i Int, what string) uint64 {
	if !i.sym() {
		return i.C
	}
	e.symBranches++
	t := i.T
	for n := 0; ; n++ {
		if n > maxSplit {
			unsup("case split over more than %d values: %s", maxSplit, what)
		}
		if len(e.taken) < len(e.prefix) {
			d := e.prefix[len(e.taken)]
			e.logDec(d)
			if d.Yes {
				e.assertTerm("(= " + t + " " + bvLit(d.V, i.W) + ")")
				return d.V
			}
			e.assertTerm("(not (= " + t + " " + bvLit(d.V, i.W) + "))")
			continue
		}
		nm := fmt.Sprintf("cs_%d", e.nsym)
		e.nsym++
		r := e.sol.checkWith(fmt.Sprintf("(declare-const %s (_ BitVec %d))", nm, i.W), "(= "+nm+" "+t+")")
		if r == "unsat" {
			panic(abortPath{"case split exhausted"})
		}
		if r != "sat" {
			panic(inconclusive{"case split: solver " + r + " for " + what})
		}
		v := e.sol.values([]string{nm})[nm]
		sib := append(append([]Dec{}, e.taken...), Dec{V: v, Yes: false})
		e.spawn(sib)
		e.logDec(Dec{V: v, Yes: true})
		e.assertTerm("(= " + t + " " + bvLit(v, i.W) + ")")
		return v
	}
}


func (e *Engine) concInt(v Val, what string) int {
	i := v.(Int)
	c := i.C
	if i.sym() {
		c = e.concretize(i, what)
	}
	if i.S {
		return int(sext(c, i.W))
	}
	return int(c)
}

func (e *Engine) concBool(b Bool) bool { return e.branch(b) }

// model of the harness inputs under the current solver state (after a sat check in the current scope)
func (e *Engine) model() map[string]uint64 {
	m := map[string]uint64{}
	if len(e.inputs) > 0 {
		vals := e.sol.values(e.inputs)
		for s, v := range vals {
			m[e.inputKey[s]] = v
		}
	}
	for k, v := range e.chosen {
		m[k] = v
	}
	return m
}

func (e *Engine) stackStr() string {
	n := len(e.stack)
	if n > 12 {
		return "… > " + strings.Join(e.stack[n-12:], " > ")
	}
	return strings.Join(e.stack, " > ")
}

// ---- assertion / assumption ----

func (e *Engine) doAssert(c Bool, label string) {
	e.asserts++
	lc := e.labels[label]
	lc[0]++
	defer func() { e.labels[label] = lc }()
	if e.concrete {
		if c.C {
			e.discharged++
			lc[1]++
		} else {
			e.obs = append(e.obs, "ASSERT-FAIL:"+label)
		}
		return
	}
	if !c.sym() {
		if c.C {
			e.discharged++
			lc[1]++
			return
		}
		r := e.sol.check()
		if r == "unsat" {
			panic(fmt.Sprintf("ENGINE ERROR: concrete assertion failure on infeasible path (%s) @ %s", label, e.stackStr()))
		}
		v := Violation{Label: label, Kind: "assert", Path: append([]Dec{}, e.taken...), Status: r}
		if r == "sat" {
			v.Model = e.model()
		}
		e.viols = append(e.viols, v)
		return
	}
	r := e.sol.checkWith("(not " + c.T + ")")
	if r == "unknown" {
		r = e.sol.retryStandalone("(not "+c.T+")", 4*e.cfg.TimeoutMs/1000)
		if r == "sat" {
			r = "unknown" // no model available from the standalone run: stay inconclusive rather than guess
		}
	}
	switch r {
	case "unsat":
		e.discharged++
		lc[1]++
		e.maybeDump(label, "(not "+c.T+")")
	case "sat":
		v := Violation{Label: label, Kind: "assert", Path: append([]Dec{}, e.taken...), Status: r, Model: e.model()}
		e.viols = append(e.viols, v)
	default:
		e.incon = append(e.incon, "assert "+label+": "+r)
	}
	// continue under the assumption that the assertion holds
	e.assertTerm(c.T)
	if r == "sat" {
		if e.sol.check() == "unsat" {
			panic(abortPath{"assertion always false on this path"})
		}
	}
}

func (e *Engine) maybeDump(label, negated string) {
	res := e.res
	if e.cfg.DumpDir == "" && res.SampleQuery != "" {
		return
	}
	script := e.sol.script(negated)
	res.mu.Lock()
	defer res.mu.Unlock()
	if res.SampleQuery == "" && len(script) < 6000 {
		res.SampleQuery = script
	}
	if e.cfg.DumpDir != "" && res.dumped < e.cfg.DumpMax {
		res.dumped++
		fn := fmt.Sprintf("%s/%s_%04d.smt2", e.cfg.DumpDir, sanitize(res.ID), res.dumped)
		if writeFile(fn, "; expect unsat  job="+res.ID+" label="+label+"\n"+script) == nil {
			res.QueryFiles = append(res.QueryFiles, fn)
		}
	}
}

func (e *Engine) doAssume(c Bool, label string) {
	e.assumes[label]++
	if !c.sym() {
		if !c.C {
			if e.concrete {
				e.obs = append(e.obs, "ASSUME-FAIL")
			}
			panic(abortPath{"assume false"})
		}
		return
	}
	e.assertTerm(c.T)
	if r := e.sol.check(); r == "unsat" {
		panic(abortPath{"assume infeasible"})
	}
}

type boxed struct {
	t types.Type
	v Val
}

// ---- path driver ----

func (e *Engine) resetPath() {
	e.taken = e.taken[:0]
	e.inputs = e.inputs[:0]
	e.inputKey = map[string]string{}
	e.nameCount = map[string]int{}
	e.chosen = map[string]uint64{}
	e.globals = map[*ssa.Global]*Obj{}
	e.copyMap = map[*Obj]*Obj{}
	e.copyMaps = map[*MapObj]*MapObj{}
	e.inPristine = false
	if e.pristine == nil {
		e.pristine = map[*ssa.Global]*Obj{}
		e.pristineInited = map[*ssa.Package]bool{}
	}
	e.stack = e.stack[:0]
	e.funcs = map[string]int{}
	e.stubs = map[string]int{}
	e.covers = map[string]int{}
	e.assumes = map[string]int{}
	e.labels = map[string][2]int{}
	e.asserts, e.discharged = 0, 0
	e.viols, e.incon = nil, nil
	e.obs = nil
	e.panicking = nil
	e.instrs = 0
	e.symBranches = 0
	e.decisions = 0
	e.ctxKeys = 0
	e.defs = 0
	e.nsym = 0
	e.callDepth = 0
	e.boxes = nil
	e.clock = 0
	e.onceDone = nil
	e.locks = nil
	e.wg = nil
	e.syncMaps = nil
	e.randReads = 0
	e.threads, e.cur, e.syncVC, e.access, e.mapAccess = nil, nil, nil, nil, nil
	e.preemptLeft, e.noSched, e.noRace, e.aborting, e.abortVal, e.mtEver = 0, 0, 0, false, nil, false
	if profiling && e.prof == nil {
		e.prof = map[*ssa.Function]int{}
	}
}

// runPath executes one path; returns outcome string
func (e *Engine) runPath(it workItem) {
	res := it.res
	e.res, e.job = res, res.job
	e.prefix = it.prefix
	e.vector = it.vector
	e.concrete = it.vector != nil
	e.resetPath()
	q0, s0, u0, k0, d0 := e.sol.queries, e.sol.sat, e.sol.unsat, e.sol.unknown, e.sol.dur
	if !e.concrete {
		e.sol.beginPath(!e.job.ResetMode)
	}
	outcome := "done"
	var detail string
	func() {
		defer func() {
			if r := recover(); r != nil {
				switch r := r.(type) {
				case abortPath:
					outcome, detail = "pruned", r.why
				case goPanic:
					outcome, detail = "panic", r.msg
				case unsupported:
					outcome, detail = "unsupported", r.msg+" @ "+e.stackStr()
				case boundExceeded:
					outcome, detail = "bound", r.msg
				case blockedPath:
					outcome, detail = "blocked", r.msg
				case deadlockPath:
					outcome, detail = "deadlock", r.msg
				case racePath:
					outcome, detail = "race", r.msg
				case inconclusive:
					outcome, detail = "inconclusive", r.msg
				case engineBug:
					outcome, detail = "engine-error", r.msg+" @ "+e.stackStr()
				default:
					outcome, detail = "engine-error", fmt.Sprint(r)+" @ "+e.stackStr()
				}
			}
		}()
		e.call(res.fn, nil, nil)
	}()
	if e.threads != nil {
		e.aborting = true
		e.killThreads()
	}
	var pv *Violation
	if outcome == "deadlock" || outcome == "race" {
		label := map[string]string{"deadlock": "no-deadlock", "race": "no-data-race"}[outcome]
		if e.concrete {
			e.obs = append(e.obs, "ASSERT-FAIL:"+label)
		} else {
			r := e.sol.check()
			if r == "unsat" {
				outcome, detail = "engine-error", outcome+" on infeasible path: "+detail
			} else {
				v := Violation{Label: label, Kind: outcome, Path: append([]Dec{}, e.taken...), Status: r, Msg: detail, Stack: e.stackStr()}
				if r == "sat" {
					v.Model = e.model()
				}
				pv = &v
				e.asserts++
				l := e.labels[label]
				l[0]++
				e.labels[label] = l
			}
		}
	}
	if outcome == "panic" {
		if e.concrete {
			e.obs = append(e.obs, "PANIC")
		} else {
			r := e.sol.check()
			if r == "unsat" {
				outcome, detail = "engine-error", "panic on infeasible path: "+detail
			} else {
				v := Violation{Label: "no-panic", Kind: "panic", Path: append([]Dec{}, e.taken...), Status: r, Msg: detail, Stack: e.stackStr()}
				if r == "sat" {
					v.Model = e.model()
				}
				pv = &v
			}
		}
	}
	if e.mtEver && !e.concrete && outcome == "done" {
		for _, label := range []string{"no-deadlock", "no-data-race"} {
			e.asserts++
			e.discharged++
			l := e.labels[label]
			l[0]++
			l[1]++
			e.labels[label] = l
		}
	}
	var sampleModel map[string]uint64
	if !e.concrete && outcome == "done" {
		res.mu.Lock()
		need := res.SampleModel == nil || len(res.Witnesses) < res.job.Witnesses
		res.mu.Unlock()
		if need && (len(e.inputs) > 0 || len(e.chosen) > 0) {
			if e.sol.check() == "sat" {
				sampleModel = e.model()
			}
		}
	}
	if !e.concrete {
		e.sol.endPath()
	}
	res.mu.Lock()
	defer res.mu.Unlock()
	if e.concrete {
		tag := ""
		switch outcome {
		case "unsupported", "engine-error", "bound", "blocked", "inconclusive":
			tag = "ENGINE-" + outcome + ":" + detail
		}
		if tag != "" {
			e.obs = append(e.obs, tag)
		}
		if e.obs == nil {
			e.obs = []string{}
		}
		res.Observations[int(it.vector["__idx"])] = e.obs
		return
	}
	res.Paths++
	res.Queries += e.sol.queries - q0
	res.Sat += e.sol.sat - s0
	res.Unsat += e.sol.unsat - u0
	res.Unknown += e.sol.unknown - k0
	res.SolverS += (e.sol.dur - d0).Seconds()
	res.Decisions += e.decisions
	res.Instrs += e.instrs
	res.Asserts += e.asserts
	res.Discharged += e.discharged
	for k, v := range e.funcs {
		res.Funcs[k] += v
	}
	for k, v := range e.stubs {
		res.Stubs[k] += v
	}
	if profiling {
		for f, n := range e.prof {
			res.Stubs["<prof> "+f.String()] += n
		}
		e.prof = map[*ssa.Function]int{}
	}
	for k, v := range e.initCost {
		res.Stubs["<init instrs> "+k] += v
	}
	e.initCost = nil
	for k, v := range e.assumes {
		res.Assumes[k] += v
	}
	for k, v := range e.labels {
		l := res.Labels[k]
		l[0] += v[0]
		l[1] += v[1]
		res.Labels[k] = l
	}
	if outcome == "done" || outcome == "panic" || outcome == "pruned" || outcome == "deadlock" || outcome == "race" {
		for k, v := range e.covers {
			res.Covers[k] += v
		}
	}
	if sampleModel != nil && res.SampleModel == nil {
		res.SampleModel = sampleModel
		res.SamplePathLen = len(e.taken)
	}
	if sampleModel != nil && len(res.Witnesses) < res.job.Witnesses {
		res.Witnesses = append(res.Witnesses, sampleModel)
	}
	res.NViolations += len(e.viols)
	for _, v := range e.viols {
		if len(res.Violations) < e.cfg.MaxViolations {
			res.Violations = append(res.Violations, v)
		}
	}
	if pv != nil {
		res.NViolations++
		if len(res.Violations) < e.cfg.MaxViolations {
			res.Violations = append(res.Violations, *pv)
		}
	}
	res.Inconclusive = append(res.Inconclusive, e.incon...)
	switch outcome {
	case "pruned":
		res.Pruned++
	case "unsupported":
		if res.Unsupported == "" {
			res.Unsupported = detail
		}
	case "bound":
		if res.BoundExceeded == "" {
			res.BoundExceeded = detail
		}
	case "blocked":
		res.Blocked++
	case "inconclusive":
		res.Inconclusive = append(res.Inconclusive, detail)
	case "engine-error":
		if res.EngineError == "" {
			res.EngineError = detail
		}
	}
	if e.concrete {
		res.Observations[int(it.vector["__idx"])] = e.obs
	}
}

func sortedKeys(m map[string]int) []string {
	ks := make([]string, 0, len(m))
	for k := range m {
		ks = append(ks, k)
	}
	sort.Strings(ks)
	return ks
}
