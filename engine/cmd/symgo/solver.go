// solver.go: one long-lived `z3 -in` per worker, push/pop along the path; any "(error" or
// "unknown" answer makes the query inconclusive (never counted as discharged).
package main

import (
	"bufio"
	"fmt"
	"io"
	"os"
	"os/exec"
	"strconv"
	"strings"
	"time"
)

type Solver struct {
	cmd     *exec.Cmd
	in      io.WriteCloser
	out     *bufio.Reader
	queries int
	sat     int
	unsat   int
	unknown int
	dur     time.Duration
	// statements of the current path (declarations + assertions), for exporting standalone queries
	path    []string
	marks   []int
	bin     string
	timeout int
	incremental bool
	pending     bool
}

func newSolver(bin string, timeoutMs int) *Solver {
	s := &Solver{bin: bin, timeout: timeoutMs}
	s.start()
	return s
}

func (s *Solver) start() {
	args := []string{"-in"}
	if s.timeout > 0 {
		args = append(args, fmt.Sprintf("-t:%d", s.timeout))
	}
	cmd := exec.Command(s.bin, args...)
	in, _ := cmd.StdinPipe()
	out, _ := cmd.StdoutPipe()
	cmd.Stderr = os.Stderr
	if err := cmd.Start(); err != nil {
		panic(err)
	}
	s.cmd, s.in, s.out = cmd, in, bufio.NewReaderSize(out, 1<<16)
	s.raw("(set-option :print-success false)")
}

func (s *Solver) close() {
	s.in.Close()
	s.cmd.Wait()
}

func (s *Solver) raw(x string) { io.WriteString(s.in, x+"\n") }

// send records a declaration/assertion that belongs to the current path. Nothing is sent to the solver
// until the next check: every check-sat is posed from scratch ((reset) + the whole path), because z3's
// incremental (push/pop) mode is an order of magnitude slower on bit-vector arithmetic than its default
// one-shot pipeline, while re-sending a path of a few hundred statements costs well under a millisecond.
// In incremental mode (the default; cheapest for many small queries) statements are sent at once and
// queries use push/pop.
func (s *Solver) send(x string) {
	s.path = append(s.path, x)
	if s.incremental {
		s.closeScope()
		s.raw(x)
	}
}

func (s *Solver) beginPath(incremental bool) {
	s.path = s.path[:0]
	s.incremental = incremental
	if incremental {
		s.raw("(reset)")
		s.raw("(push)")
	}
}
func (s *Solver) endPath() {
	if s.incremental {
		s.closeScope()
		s.raw("(pop)")
	}
	s.path = s.path[:0]
}

// checkWith asks whether path ∧ extra... is satisfiable without changing the path. A following
// values() call refers to the model of this query.
func (s *Solver) checkWith(extra ...string) string {
	var sb strings.Builder
	if s.incremental {
		if len(extra) > 0 {
			sb.WriteString("(push)\n")
		}
	} else {
		sb.WriteString("(reset)\n")
		for _, l := range s.path {
			sb.WriteString(l)
			sb.WriteByte('\n')
		}
	}
	for _, x := range extra {
		if strings.HasPrefix(x, "(declare-") || strings.HasPrefix(x, "(define-") {
			sb.WriteString(x)
		} else {
			sb.WriteString("(assert " + x + ")")
		}
		sb.WriteByte('\n')
	}
	sb.WriteString("(check-sat)\n")
	t0 := time.Now()
	s.closeScope()
	if s.incremental && len(extra) > 0 {
		s.pending = true
	}
	io.WriteString(s.in, sb.String())
	l, err := s.out.ReadString('\n')
	s.queries++
	s.dur += time.Since(t0)
	if err != nil {
		panic(inconclusive{"solver died: " + err.Error()})
	}
	l = strings.TrimSpace(l)
	switch l {
	case "sat":
		s.sat++
	case "unsat":
		s.unsat++
	case "unknown", "timeout":
		s.unknown++
		l = "unknown"
	default:
		// any "(error" line: inconclusive, and the stream may be out of sync → fatal
		panic(inconclusive{"solver said: " + l})
	}
	return l
}

func (s *Solver) check() string { return s.checkWith() }

// closeScope pops the scope of the previous checkWith (kept open so that values() can read its model)
func (s *Solver) closeScope() {
	if s.pending {
		s.pending = false
		s.raw("(pop)")
	}
}

// retryStandalone re-decides "path ∧ extra" in a fresh solver process with a longer time limit
// (used when the incremental solver answered unknown, typically under heavy machine load)
func (s *Solver) retryStandalone(extra string, seconds int) string {
	f, err := os.CreateTemp("", "symgo-retry-*.smt2")
	if err != nil {
		return "unknown"
	}
	defer os.Remove(f.Name())
	f.WriteString(s.script(extra))
	f.Close()
	t0 := time.Now()
	out, _ := exec.Command(s.bin, fmt.Sprintf("-T:%d", seconds), f.Name()).CombinedOutput()
	s.dur += time.Since(t0)
	s.queries++
	l := strings.TrimSpace(strings.SplitN(string(out), "\n", 2)[0])
	switch l {
	case "sat":
		s.sat++
		return "sat"
	case "unsat":
		s.unsat++
		return "unsat"
	}
	s.unknown++
	return "unknown"
}

// standalone SMT-LIB script for "path ∧ extra"
func (s *Solver) script(extra string) string {
	var sb strings.Builder
	for _, l := range s.path {
		sb.WriteString(l)
		sb.WriteByte('\n')
	}
	if extra != "" {
		sb.WriteString("(assert " + extra + ")\n")
	}
	sb.WriteString("(check-sat)\n")
	return sb.String()
}

// values of the given bit-vector / Bool constants in the current model (call right after a sat check,
// inside the same push scope)
func (s *Solver) values(names []string) map[string]uint64 {
	res := map[string]uint64{}
	for i := 0; i < len(names); i += 50 {
		j := i + 50
		if j > len(names) {
			j = len(names)
		}
		s.raw("(get-value (" + strings.Join(names[i:j], " ") + "))")
		var sb strings.Builder
		depth := 0
		for {
			l, err := s.out.ReadString('\n')
			if err != nil {
				panic(inconclusive{"solver died in get-value"})
			}
			sb.WriteString(strings.TrimSpace(l) + " ")
			depth += strings.Count(l, "(") - strings.Count(l, ")")
			if depth <= 0 {
				break
			}
		}
		txt := sb.String()
		if strings.Contains(txt, "(error") {
			panic(inconclusive{"get-value: " + txt})
		}
		parseValues(txt, res)
	}
	return res
}

// parse "((a #x00ff) (b (_ bv3 8)) (c true))"
func parseValues(txt string, res map[string]uint64) {
	toks := tokenize(txt)
	// structure: ( ( name val ) ( name val ) ... )
	i := 0
	next := func() string { t := toks[i]; i++; return t }
	if len(toks) == 0 || next() != "(" {
		return
	}
	for i < len(toks) {
		t := next()
		if t == ")" {
			break
		}
		if t != "(" {
			continue
		}
		name := next()
		v := next()
		var val uint64
		switch {
		case v == "(":
			// (_ bvN W)
			next() // _
			bv := next()
			next() // width
			next() // )
			val, _ = strconv.ParseUint(strings.TrimPrefix(bv, "bv"), 10, 64)
		case strings.HasPrefix(v, "#x"):
			val, _ = strconv.ParseUint(v[2:], 16, 64)
		case strings.HasPrefix(v, "#b"):
			val, _ = strconv.ParseUint(v[2:], 2, 64)
		case v == "true":
			val = 1
		case v == "false":
			val = 0
		}
		res[name] = val
		// skip to closing paren of this pair
		for i < len(toks) && toks[i] != ")" {
			i++
		}
		i++
	}
}

func tokenize(s string) []string {
	var toks []string
	cur := strings.Builder{}
	flush := func() {
		if cur.Len() > 0 {
			toks = append(toks, cur.String())
			cur.Reset()
		}
	}
	inBar := false
	for i := 0; i < len(s); i++ {
		c := s[i]
		if inBar {
			cur.WriteByte(c)
			if c == '|' {
				inBar = false
			}
			continue
		}
		switch c {
		case '|':
			inBar = true
			cur.WriteByte(c)
		case '(', ')':
			flush()
			toks = append(toks, string(c))
		case ' ', '\n', '\t', '\r':
			flush()
		default:
			cur.WriteByte(c)
		}
	}
	flush()
	return toks
}
