// symgo: bounded symbolic execution of Go functions (from go/ssa of the current source tree)
// with an SMT solver deciding every branch and assertion.
//
//	symgo -spec spec.json -out result.json
//
// spec.json: {repo, pkg, overlay:{virtual:real}, jobs:[...], workers, solver, timeout_ms,
// redirects:{callee: harnessFunc}, overrides:{global: "bytes:<hex>"}, dump_dir, dump_max}
package main

import (
	"encoding/json"
	"flag"
	"fmt"
	"go/types"
	"os"
	"runtime"
	"sort"
	"strings"
	"sync"
	"time"

	"golang.org/x/tools/go/packages"
	"golang.org/x/tools/go/ssa"
	"golang.org/x/tools/go/ssa/ssautil"
)

type Config struct {
	Repo          string            `json:"repo"`
	Pkg           string            `json:"pkg"`     // repo-relative directory of the root package
	Overlay       map[string]string `json:"overlay"` // virtual path -> real file
	Tags          string            `json:"tags"`
	Jobs          []*Job            `json:"jobs"`
	Workers       int               `json:"workers"`
	Solver        string            `json:"solver"`
	TimeoutMs     int               `json:"timeout_ms"`
	Redirects     map[string]string `json:"redirects"`
	Overrides     map[string]string `json:"overrides"`
	DumpDir       string            `json:"dump_dir"`
	DumpMax       int               `json:"dump_max"`
	MaxViolations int               `json:"max_violations"`
	DefaultUnwind int               `json:"default_unwind"`
}

type Output struct {
	Pkg        string    `json:"pkg"`
	LoadS      float64   `json:"load_s"`
	WallS      float64   `json:"wall_s"`
	Results    []*Result `json:"results"`
	LoadError  string    `json:"load_error,omitempty"`
	Solver     string    `json:"solver"`
	SourceHash string    `json:"source_files,omitempty"`
}

func writeFile(name, content string) error { return os.WriteFile(name, []byte(content), 0o644) }

func main() {
	specF := flag.String("spec", "", "spec json")
	outF := flag.String("out", "", "result json")
	flag.Parse()
	raw, err := os.ReadFile(*specF)
	if err != nil {
		fmt.Fprintln(os.Stderr, "spec:", err)
		os.Exit(2)
	}
	cfg := &Config{}
	if err := json.Unmarshal(raw, cfg); err != nil {
		fmt.Fprintln(os.Stderr, "spec:", err)
		os.Exit(2)
	}
	if cfg.Workers <= 0 {
		cfg.Workers = runtime.NumCPU()
	}
	if cfg.Solver == "" {
		cfg.Solver = "z3"
	}
	if cfg.TimeoutMs == 0 {
		cfg.TimeoutMs = 60000
	}
	if cfg.MaxViolations == 0 {
		cfg.MaxViolations = 8
	}
	if cfg.DefaultUnwind == 0 {
		cfg.DefaultUnwind = 12
	}
	if cfg.Tags == "" {
		cfg.Tags = "verif"
	}
	if cfg.DumpDir != "" {
		os.MkdirAll(cfg.DumpDir, 0o755)
	}
	out := &Output{Pkg: cfg.Pkg, Solver: cfg.Solver}
	t0 := time.Now()
	finish := func(code int) {
		out.WallS = time.Since(t0).Seconds()
		b, _ := json.MarshalIndent(out, "", " ")
		if *outF != "" {
			os.WriteFile(*outF, b, 0o644)
		} else {
			os.Stdout.Write(b)
		}
		os.Exit(code)
	}

	pcfg := &packages.Config{Mode: packages.LoadAllSyntax, Dir: cfg.Repo,
		BuildFlags: []string{"-tags", cfg.Tags},
		Env:        append(os.Environ(), "GOFLAGS=-mod=mod", "GOPROXY=off"),
		Overlay:    map[string][]byte{}}
	for virt, real := range cfg.Overlay {
		src, err := os.ReadFile(real)
		if err != nil {
			out.LoadError = "overlay: " + err.Error()
			finish(2)
		}
		pcfg.Overlay[virt] = src
	}
	pkgs, err := packages.Load(pcfg, "./"+cfg.Pkg)
	if err != nil {
		out.LoadError = "load: " + err.Error()
		finish(2)
	}
	var errs []string
	packages.Visit(pkgs, nil, func(p *packages.Package) {
		for _, e := range p.Errors {
			errs = append(errs, e.Error())
		}
	})
	if len(errs) > 0 {
		if len(errs) > 10 {
			errs = errs[:10]
		}
		out.LoadError = "HARNESS-STALE or build error: " + strings.Join(errs, "; ")
		finish(2)
	}
	prog, spkgs := ssautil.AllPackages(pkgs, ssa.InstantiateGenerics)
	prog.Build()
	out.LoadS = time.Since(t0).Seconds()
	root := spkgs[0]
	if root == nil {
		out.LoadError = "no ssa package"
		finish(2)
	}

	sh := newShared(prog)

	var initial []workItem
	for _, j := range cfg.Jobs {
		r := &Result{ID: j.ID, Func: j.Func, Conf: j.Conf, Covers: map[string]int{}, Funcs: map[string]int{}, Stubs: map[string]int{},
			Assumes: map[string]int{}, Labels: map[string][2]int{}, job: j, Unwind: j.Unwind}
		if r.Unwind == 0 {
			r.Unwind = cfg.DefaultUnwind
		}
		out.Results = append(out.Results, r)
		r.fn = root.Func(j.Func)
		if r.fn == nil {
			r.Unsupported = "HARNESS-STALE: no function " + j.Func
			continue
		}
		if j.Concrete {
			r.Observations = make([][]string, len(j.Vectors))
			for i, v := range j.Vectors {
				if v == nil {
					v = map[string]uint64{}
				}
				v["__idx"] = uint64(i)
				initial = append(initial, workItem{res: r, vector: v})
				r.outstanding++
			}
		} else {
			initial = append(initial, workItem{res: r})
			r.outstanding++
		}
	}
	runPool(prog, root, cfg, sh, initial)
	// phase 2: every witness (a model of one completed path) is re-executed concretely by the
	// interpreter; the runner compares these observations with a native run of the same vectors
	var second []workItem
	for _, r := range out.Results {
		if len(r.Witnesses) == 0 || r.Unsupported != "" || r.EngineError != "" {
			continue
		}
		r.Observations = make([][]string, len(r.Witnesses))
		for i, w := range r.Witnesses {
			v := map[string]uint64{"__idx": uint64(i)}
			for k, x := range w {
				v[k] = x
			}
			second = append(second, workItem{res: r, vector: v})
			r.outstanding++
		}
	}
	if len(second) > 0 {
		runPool(prog, root, cfg, sh, second)
	}
	code := 0
	for _, r := range out.Results {
		if r.Unsupported != "" || r.EngineError != "" || r.BoundExceeded != "" || len(r.Inconclusive) > 0 {
			code = 3
		}
	}
	for _, r := range out.Results {
		if r.NViolations > 0 && code == 0 {
			code = 1
		}
		if len(r.Inconclusive) > 20 {
			r.Inconclusive = r.Inconclusive[:20]
		}
	}
	finish(code)
}


func runPool(prog *ssa.Program, root *ssa.Package, cfg *Config, sh *shared, initial []workItem) {
	var mu sync.Mutex
	stack := append([]workItem{}, initial...)
	for i, j := 0, len(stack)-1; i < j; i, j = i+1, j-1 {
		stack[i], stack[j] = stack[j], stack[i]
	}
	outstanding := len(stack)
	cond := sync.NewCond(&mu)
	var wg sync.WaitGroup
	for w := 0; w < cfg.Workers; w++ {
		wg.Add(1)
		go func() {
			defer wg.Done()
			var e *Engine
			for {
				mu.Lock()
				for len(stack) == 0 && outstanding > 0 {
					cond.Wait()
				}
				if outstanding == 0 {
					mu.Unlock()
					cond.Broadcast()
					break
				}
				it := stack[len(stack)-1]
				stack = stack[:len(stack)-1]
				mu.Unlock()
				if e == nil {
					e = newEngine(prog, root, cfg, sh)
				}
				res := it.res
				e.spawn = func(prefix []Dec) {
					mu.Lock()
					res.mu.Lock()
					limit := res.job.MaxPaths > 0 && res.Paths+res.outstanding >= res.job.MaxPaths
					if limit {
						res.MaxPathsHit = true
					} else {
						res.outstanding++
					}
					res.mu.Unlock()
					if !limit {
						stack = append(stack, workItem{res: res, prefix: prefix})
						outstanding++
						cond.Signal()
					}
					mu.Unlock()
				}
				res.mu.Lock()
				fatal := res.Unsupported != "" || res.EngineError != "" || res.BoundExceeded != ""
				res.mu.Unlock()
				res.mu.Lock()
				if res.start.IsZero() {
					res.start = time.Now()
				}
				res.mu.Unlock()
				if !fatal {
					e.runPath(it)
				}
				mu.Lock()
				outstanding--
				res.mu.Lock()
				res.outstanding--
				if res.outstanding == 0 && !res.start.IsZero() {
					res.WallS += time.Since(res.start).Seconds()
					res.start = time.Time{}
				}
				res.mu.Unlock()
				if outstanding == 0 {
					cond.Broadcast()
				}
				mu.Unlock()
			}
			if e != nil && e.sol != nil {
				e.sol.close()
			}
		}()
	}
	wg.Wait()
}

// shared, read-only after construction
type shared struct {
	opaqueT, ctxT, logT types.Type
	errorIface          *types.Interface
	ctxIfaceT           types.Type
	timeT               types.Type
}

func newShared(prog *ssa.Program) *shared {
	sh := &shared{}
	mkNamed := func(name string) types.Type {
		return types.NewPointer(types.NewNamed(types.NewTypeName(0, nil, name, nil), types.NewStruct(nil, nil), nil))
	}
	sh.opaqueT = mkNamed("symgo.opaque")
	sh.ctxT = mkNamed("symgo.context")
	sh.logT = mkNamed("symgo.loghandle")
	sh.errorIface = types.Universe.Lookup("error").Type().Underlying().(*types.Interface)
	if p := prog.ImportedPackage("context"); p != nil {
		sh.ctxIfaceT = p.Type("Context").Type()
	}
	if p := prog.ImportedPackage("time"); p != nil {
		sh.timeT = p.Type("Time").Type()
	}
	return sh
}

func newEngine(prog *ssa.Program, root *ssa.Package, cfg *Config, sh *shared) *Engine {
	e := &Engine{prog: prog, root: root, cfg: cfg}
	e.opaqueT, e.ctxT, e.logT = sh.opaqueT, sh.ctxT, sh.logT
	e.errorIface, e.ctxIfaceT, e.timeT = sh.errorIface, sh.ctxIfaceT, sh.timeT
	e.sol = newSolver(cfg.Solver, cfg.TimeoutMs)
	return e
}


func init() {
	_ = sort.Strings
}
