// exec.go: interpretation of SSA functions and instructions.
package main

import (
	"fmt"
	"os"
	"runtime"
	"go/constant"
	"go/token"
	"go/types"
	"strings"

	"golang.org/x/tools/go/ssa"
)

type frame struct {
	fn     *ssa.Function
	env    map[ssa.Value]Val
	block  *ssa.BasicBlock
	prev   *ssa.BasicBlock
	loops  map[*ssa.BasicBlock]int
	symAt  map[*ssa.BasicBlock]int
	defers []func()
	clo    []Val
	depth  int
}

const maxInstrs = 40_000_000
const maxCallDepth = 300
const concreteLoopCap = 2_000_000

func (e *Engine) newObj(v Val) *Obj {
	e.objID++
	return &Obj{V: v, id: e.objID}
}

func (e *Engine) get(fr *frame, v ssa.Value) Val {
	switch v := v.(type) {
	case *ssa.Const:
		return e.constVal(v)
	case *ssa.Function:
		return Closure{Fn: v}
	case *ssa.Builtin:
		return v
	case *ssa.Global:
		return Ptr{O: e.global(v)}
	case *ssa.FreeVar:
		for i, fv := range fr.fn.FreeVars {
			if fv == v {
				return fr.clo[i]
			}
		}
	}
	r, ok := fr.env[v]
	if !ok {
		unsup("unbound %s in %s", v.Name(), fr.fn)
	}
	if p, ok := r.(Poison); ok {
		unsup("use of poisoned value: %s", p.Why)
	}
	return r
}

func (e *Engine) constVal(c *ssa.Const) Val {
	if c.Value == nil {
		return zero(c.Type())
	}
	t := c.Type()
	if tp, ok := t.(*types.TypeParam); ok {
		_ = tp
		unsup("const of type parameter type %s", t)
	}
	switch u := t.Underlying().(type) {
	case *types.Basic:
		switch {
		case u.Info()&types.IsBoolean != 0:
			return Bool{C: constant.BoolVal(c.Value)}
		case u.Info()&types.IsInteger != 0:
			w := width(u)
			iv := constant.ToInt(c.Value)
			if i, ok := constant.Int64Val(iv); ok {
				return Int{W: w, S: u.Info()&types.IsUnsigned == 0, C: uint64(i) & mask(w)}
			}
			ui, _ := constant.Uint64Val(iv)
			return Int{W: w, S: u.Info()&types.IsUnsigned == 0, C: ui & mask(w)}
		case u.Info()&types.IsFloat != 0:
			f, _ := constant.Float64Val(c.Value)
			if u.Kind() == types.Float32 {
				f32, _ := constant.Float32Val(c.Value)
				return Flt{W: 32, C: uint64(f32bits(f32))}
			}
			return Flt{W: 64, C: f64bits(f)}
		case u.Info()&types.IsString != 0:
			return mkStr(constant.StringVal(c.Value))
		}
	}
	unsup("const %s", c)
	return nil
}

func (e *Engine) loadRaw(p Ptr) Val {
	v := p.O.V
	for _, i := range p.P {
		if pz, ok := v.(Poison); ok {
			unsup("access to poisoned variable: %s", pz.Why)
		}
		v = v.(Agg).F[i]
	}
	if pz, ok := v.(Poison); ok {
		unsup("access to poisoned variable: %s", pz.Why)
	}
	return v
}

func (e *Engine) load(p Ptr) Val {
	if p.O == nil {
		e.rtPanic("invalid memory address or nil pointer dereference")
	}
	if e.threads != nil {
		e.raceObj(p.O, p.P, false)
	}
	v := p.O.V
	for _, i := range p.P {
		if pz, ok := v.(Poison); ok {
			unsup("load of poisoned variable: %s", pz.Why)
		}
		v = v.(Agg).F[i]
	}
	if pz, ok := v.(Poison); ok {
		unsup("load of poisoned variable: %s", pz.Why)
	}
	return copyVal(v)
}

func (e *Engine) store(p Ptr, x Val) {
	if p.O == nil {
		e.rtPanic("invalid memory address or nil pointer dereference")
	}
	if e.threads != nil {
		e.raceObj(p.O, p.P, true)
	}
	x = copyVal(x)
	if len(p.P) == 0 {
		p.O.V = x
		return
	}
	a := p.O.V.(Agg)
	for _, i := range p.P[:len(p.P)-1] {
		a = a.F[i].(Agg)
	}
	a.F[p.P[len(p.P)-1]] = x
}

func (e *Engine) cells(s Slice) []Val {
	if s.O == nil {
		return nil
	}
	v := s.O.V
	for _, i := range s.Base {
		v = v.(Agg).F[i]
	}
	return v.(Agg).F[s.Off : s.Off+s.Len]
}

func (e *Engine) rtPanic(msg string) {
	panic(goPanic{msg: "runtime error: " + msg, val: Iface{T: e.opaqueT, V: &Opaque{Kind: "runtime error: " + msg}}})
}

func (e *Engine) callVal(f Val, args []Val) Val {
	switch f := f.(type) {
	case Closure:
		if f.Native != nil {
			return f.Native(e, args)
		}
		if f.Fn == nil {
			e.rtPanic("call of nil func")
		}
		return e.call(f.Fn, args, f.Env)
	case *ssa.Builtin:
		return e.builtin(f, args)
	}
	unsup("call of %T", f)
	return nil
}

func (e *Engine) call(fn *ssa.Function, args []Val, clo []Val) (ret Val) {
	if r, ok := e.intrinsic(fn, args); ok {
		return r
	}
	if r, ok := e.stub(fn, args); ok {
		return r
	}
	return e.callBody(fn, args, clo)
}

// callBody interprets the SSA body (no stub lookup)
func (e *Engine) callBody(fn *ssa.Function, args []Val, clo []Val) (ret Val) {
	if fn.Blocks == nil {
		if fn.Pkg != nil {
			fn.Pkg.Build()
		}
		if fn.Blocks == nil {
			unsup("external function without body: %s", fn)
		}
	}
	if e.isHarnessFn(fn) {
		e.funcs["H:"+fn.String()]++
	} else {
		e.funcs[fn.String()]++
	}
	depth := len(e.stack)
	e.stack = append(e.stack, fn.String())
	e.callDepth++
	if e.callDepth > maxCallDepth {
		panic(boundExceeded{"recursion depth > " + fmt.Sprint(maxCallDepth) + " in " + fn.String()})
	}
	fr := &frame{fn: fn, env: make(map[ssa.Value]Val, 16), loops: map[*ssa.BasicBlock]int{}, clo: clo, depth: depth}
	for i, p := range fn.Params {
		fr.env[p] = args[i]
	}
	defer func() {
		if r := recover(); r != nil {
			gp, ok := r.(goPanic)
			if !ok || len(fr.defers) == 0 {
				panic(r)
			}
			saved := e.panicking
			e.panicking = &gp
			e.stack = e.stack[:depth+1]
			e.runDefers(fr)
			if e.panicking == nil { // recovered
				e.panicking = saved
				e.stack = e.stack[:depth]
				e.callDepth--
				if fn.Recover != nil {
					fr.block = fn.Recover
					ret = e.run(fr)
				} else {
					ret = e.zeroResults(fn)
				}
				return
			}
			e.panicking = saved
			panic(r)
		}
	}()
	fr.block = fn.Blocks[0]
	ret = e.run(fr)
	e.stack = e.stack[:depth]
	e.callDepth--
	return ret
}

func (e *Engine) zeroResults(fn *ssa.Function) Val {
	rs := fn.Signature.Results()
	switch rs.Len() {
	case 0:
		return nil
	case 1:
		return zero(rs.At(0).Type())
	}
	return zero(rs)
}

func (e *Engine) runDefers(fr *frame) {
	for len(fr.defers) > 0 {
		d := fr.defers[len(fr.defers)-1]
		fr.defers = fr.defers[:len(fr.defers)-1]
		d()
	}
}

type engineBug struct{ msg string }

var profiling = os.Getenv("SYMGO_PROF") != ""

func (e *Engine) run(fr *frame) Val {
	var cur ssa.Instruction
	defer func() {
		if r := recover(); r != nil {
			if re, ok := r.(runtime.Error); ok {
				pos := ""
				if cur != nil {
					pos = fmt.Sprintf(" at instruction %q (%s) in %s", cur.String(), e.prog.Fset.Position(cur.Pos()), fr.fn)
				}
				panic(engineBug{re.Error() + pos})
			}
			panic(r)
		}
	}()
	for {
	block:
		for _, in := range fr.block.Instrs {
			cur = in
			e.instrs++
			if profiling {
				e.prof[fr.fn]++
			}
			if e.instrs > maxInstrs {
				panic(boundExceeded{"instruction budget exceeded"})
			}
			switch in := in.(type) {
			case *ssa.Return:
				e.runDefers(fr)
				switch len(in.Results) {
				case 0:
					return nil
				case 1:
					return e.get(fr, in.Results[0])
				}
				t := make(Tuple, len(in.Results))
				for i, r := range in.Results {
					t[i] = e.get(fr, r)
				}
				return t
			case *ssa.Jump:
				e.jump(fr, fr.block.Succs[0])
				break block
			case *ssa.If:
				c := e.get(fr, in.Cond).(Bool)
				if e.branch(c) {
					e.jump(fr, fr.block.Succs[0])
				} else {
					e.jump(fr, fr.block.Succs[1])
				}
				break block
			case *ssa.Panic:
				x := e.get(fr, in.X)
				msg := "explicit panic in " + fr.fn.String()
				if iv, ok := x.(Iface); ok {
					if s, ok := iv.V.(Str); ok {
						if cs, ok := s.concrete(); ok {
							msg += ": " + cs
						}
					}
				}
				panic(goPanic{msg: msg, val: x})
			default:
				e.step(fr, in)
			}
		}
	}
}

func (e *Engine) jump(fr *frame, to *ssa.BasicBlock) {
	if to.Index <= fr.block.Index {
		if fr.symAt == nil {
			fr.symAt = map[*ssa.BasicBlock]int{}
		}
		fr.loops[to]++
		if fr.symAt[to] != e.symBranches { // a symbolic decision happened since the last visit
			fr.symAt[to] = e.symBranches
			fr.loops[to] += 1 << 32
			if fr.loops[to]>>32 > e.res.Unwind {
				panic(boundExceeded{fmt.Sprintf("unwind bound %d exceeded at loop in %s (%s)", e.res.Unwind, fr.fn, e.prog.Fset.Position(to.Instrs[0].Pos()))})
			}
		}
		if fr.loops[to]&0xffffffff > concreteLoopCap {
			panic(boundExceeded{"concrete loop cap exceeded in " + fr.fn.String()})
		}
	}
	fr.prev, fr.block = fr.block, to
	var vals []Val
	var phis []*ssa.Phi
	for _, in := range to.Instrs {
		p, ok := in.(*ssa.Phi)
		if !ok {
			break
		}
		for i, pred := range to.Preds {
			if pred == fr.prev {
				vals = append(vals, e.get(fr, p.Edges[i]))
				phis = append(phis, p)
				break
			}
		}
	}
	for i, p := range phis {
		fr.env[p] = vals[i]
	}
}

func (e *Engine) elemType(t types.Type) types.Type {
	switch u := t.Underlying().(type) {
	case *types.Slice:
		return u.Elem()
	case *types.Array:
		return u.Elem()
	case *types.Pointer:
		return e.elemType(u.Elem())
	case *types.Map:
		return u.Elem()
	case *types.Basic:
		return types.Typ[types.Uint8]
	}
	return nil
}

func (e *Engine) step(fr *frame, in ssa.Instruction) {
	switch in := in.(type) {
	case *ssa.Phi, *ssa.DebugRef:
	case *ssa.Alloc:
		fr.env[in] = Ptr{O: e.newObj(zero(in.Type().(*types.Pointer).Elem()))}
	case *ssa.FieldAddr:
		p := e.get(fr, in.X).(Ptr)
		if p.O == nil {
			e.rtPanic("invalid memory address or nil pointer dereference")
		}
		fr.env[in] = Ptr{O: p.O, P: extPath(p.P, in.Field)}
	case *ssa.Field:
		fr.env[in] = copyVal(e.get(fr, in.X).(Agg).F[in.Field])
	case *ssa.IndexAddr:
		switch x := e.get(fr, in.X).(type) {
		case Ptr:
			if x.O == nil {
				e.rtPanic("invalid memory address or nil pointer dereference")
			}
			n := len(e.loadRaw(x).(Agg).F)
			idx := e.index(e.get(fr, in.Index), n, "index "+in.String())
			fr.env[in] = Ptr{O: x.O, P: extPath(x.P, idx)}
		case Slice:
			idx := e.index(e.get(fr, in.Index), x.Len, "index "+in.String())
			fr.env[in] = Ptr{O: x.O, P: extPath(x.Base, x.Off+idx)}
		default:
			unsup("IndexAddr on %T", x)
		}
	case *ssa.Index:
		switch x := e.get(fr, in.X).(type) {
		case Agg:
			iv := e.get(fr, in.Index).(Int)
			if iv.sym() && len(x.F) > 0 {
				if _, isInt := x.F[0].(Int); isInt && len(x.F) <= 256 {
					fr.env[in] = e.iteChain(iv, x.F, in.String())
					break
				}
			}
			idx := e.index(iv, len(x.F), "index "+in.String())
			fr.env[in] = copyVal(x.F[idx])
		case Str:
			iv := e.get(fr, in.Index).(Int)
			if iv.sym() && len(x.B) > 0 && len(x.B) <= 256 {
				fr.env[in] = e.iteChain(iv, x.B, in.String())
				break
			}
			idx := e.index(iv, len(x.B), "string index")
			fr.env[in] = x.B[idx]
		default:
			unsup("Index on %T", x)
		}
	case *ssa.Lookup:
		switch x := e.get(fr, in.X).(type) {
		case Str:
			iv := e.get(fr, in.Index).(Int)
			if iv.sym() && len(x.B) > 0 && len(x.B) <= 256 {
				fr.env[in] = e.iteChain(iv, x.B, in.String())
				break
			}
			idx := e.index(iv, len(x.B), "string index")
			fr.env[in] = x.B[idx]
		case Map:
			var v Val
			ok := false
			if x.M != nil {
				if i, found := e.mapFind(x.M, e.get(fr, in.Index)); found {
					v, ok = copyVal(x.M.vals[i]), true
				}
			}
			if !ok {
				v = zero(in.X.Type().Underlying().(*types.Map).Elem())
			}
			if in.CommaOk {
				fr.env[in] = Tuple{v, Bool{C: ok}}
			} else {
				fr.env[in] = v
			}
		default:
			unsup("lookup on %T", x)
		}
	case *ssa.Store:
		e.store(e.get(fr, in.Addr).(Ptr), e.get(fr, in.Val))
	case *ssa.UnOp:
		x := e.get(fr, in.X)
		switch in.Op {
		case token.MUL:
			fr.env[in] = e.load(x.(Ptr))
		case token.NOT:
			fr.env[in] = bNot(x.(Bool))
		case token.XOR:
			i := x.(Int)
			if i.sym() {
				fr.env[in] = Int{W: i.W, S: i.S, T: "(bvnot " + i.T + ")"}
			} else {
				fr.env[in] = Int{W: i.W, S: i.S, C: ^i.C & mask(i.W)}
			}
		case token.SUB:
			switch i := x.(type) {
			case Int:
				if i.sym() {
					fr.env[in] = Int{W: i.W, S: i.S, T: "(bvneg " + i.T + ")"}
				} else {
					fr.env[in] = Int{W: i.W, S: i.S, C: (-i.C) & mask(i.W)}
				}
			case Flt:
				if i.sym() {
					fr.env[in] = Flt{W: i.W, T: "(fp.neg " + i.T + ")"}
				} else {
					fr.env[in] = Flt{W: i.W, C: i.C ^ (uint64(1) << uint(i.W-1))}
				}
			}
		case token.ARROW:
			fr.env[in] = e.recv(x.(Chan), in.CommaOk, in.Type())
		default:
			unsup("unop %s", in.Op)
		}
	case *ssa.BinOp:
		fr.env[in] = e.binop(in.Op, e.get(fr, in.X), e.get(fr, in.Y), in.X.Type())
	case *ssa.Convert:
		fr.env[in] = e.convert(e.get(fr, in.X), in.X.Type(), in.Type())
	case *ssa.MultiConvert:
		fr.env[in] = e.convert(e.get(fr, in.X), in.X.Type(), in.Type())
	case *ssa.ChangeType:
		fr.env[in] = e.get(fr, in.X)
	case *ssa.ChangeInterface:
		fr.env[in] = e.get(fr, in.X)
	case *ssa.SliceToArrayPointer:
		s := e.get(fr, in.X).(Slice)
		n := int(in.Type().(*types.Pointer).Elem().Underlying().(*types.Array).Len())
		if s.Len < n {
			e.rtPanic("cannot convert slice to array pointer: length too small")
		}
		if s.Off == 0 && s.O != nil {
			if a, ok := e.loadRaw(Ptr{O: s.O, P: s.Base}).(Agg); ok && len(a.F) == n {
				fr.env[in] = Ptr{O: s.O, P: s.Base}
				break
			}
		}
		unsup("SliceToArrayPointer on sub-slice")
	case *ssa.MakeInterface:
		fr.env[in] = Iface{T: in.X.Type(), V: e.get(fr, in.X)}
	case *ssa.TypeAssert:
		x := e.get(fr, in.X).(Iface)
		ok := false
		if x.T != nil {
			if types.IsInterface(in.AssertedType) {
				ok = e.implements(x.T, in.AssertedType)
			} else {
				ok = types.Identical(x.T, in.AssertedType)
			}
		}
		var v Val
		if types.IsInterface(in.AssertedType) {
			v = x
			if !ok {
				v = Iface{}
			}
		} else if ok {
			v = x.V
		} else {
			v = zero(in.AssertedType)
		}
		if in.CommaOk {
			fr.env[in] = Tuple{v, Bool{C: ok}}
		} else {
			if !ok {
				e.rtPanic(fmt.Sprintf("interface conversion: %v is not %s", x.T, in.AssertedType))
			}
			fr.env[in] = v
		}
	case *ssa.MakeSlice:
		n := e.concInt(e.get(fr, in.Len), "make len")
		c := e.concInt(e.get(fr, in.Cap), "make cap")
		if n < 0 || c < n || c > 1<<20 {
			e.rtPanic("makeslice: len out of range")
		}
		a := Agg{F: make([]Val, c)}
		et := in.Type().Underlying().(*types.Slice).Elem()
		for i := 0; i < c; i++ {
			a.F[i] = zero(et)
		}
		fr.env[in] = Slice{O: e.newObj(a), Len: n, Cap: c}
	case *ssa.Slice:
		e.sliceOp(fr, in)
	case *ssa.Extract:
		fr.env[in] = e.get(fr, in.Tuple).(Tuple)[in.Index]
	case *ssa.MakeMap:
		e.objID++
		fr.env[in] = Map{M: &MapObj{idx: map[string]int{}, dead: map[int]bool{}, id: e.objID}}
	case *ssa.MapUpdate:
		m := e.get(fr, in.Map).(Map)
		if m.M == nil {
			e.rtPanic("assignment to entry in nil map")
		}
		e.mapSet(m.M, e.get(fr, in.Key), e.get(fr, in.Value))
	case *ssa.Range:
		switch x := e.get(fr, in.X).(type) {
		case Map:
			it := &mapIter{}
			if x.M != nil {
				if e.threads != nil {
					e.raceMap(x.M, false)
				}
				it.m = x.M
				var live []int
				for i := range x.M.keys {
					if !x.M.dead[i] {
						live = append(live, i)
					}
				}
				if e.job.MapOrder && !e.concrete && len(live) > 1 {
					if len(live) > 8 {
						unsup("map order fork over %d entries", len(live))
					}
					if e.job.MapOrderMode == "permutations" {
						for len(live) > 0 {
							j := e.chooseN(len(live))
							it.order = append(it.order, live[j])
							live = append(live[:j:j], live[j+1:]...)
						}
					} else {
						// what the go1.23 runtime does for a map that fits one bucket (<= 8 entries): iteration
						// starts at a random slot and wraps around, i.e. a rotation of the slot order
						r := e.chooseN(len(live))
						it.order = append(append([]int{}, live[r:]...), live[:r]...)
					}
				} else {
					it.order = live
				}
			}
			fr.env[in] = it
		case Str:
			for _, c := range x.B {
				ci := c.(Int)
				if ci.sym() {
					// a symbolic byte ≥ 0x80 would start a multi-byte rune
					if e.branch(Bool{T: "(bvuge " + ci.T + " #x80)"}) {
						unsup("range over string with non-ASCII symbolic byte")
					}
				} else if ci.C >= 0x80 {
					unsup("range over non-ASCII string")
				}
			}
			xs := x
			fr.env[in] = &mapIter{str: &xs}
		default:
			unsup("range over %T", x)
		}
	case *ssa.Next:
		it := e.get(fr, in.Iter).(*mapIter)
		if it.str != nil {
			if it.pos >= len(it.str.B) {
				fr.env[in] = Tuple{Bool{}, Int{W: 64, S: true}, Int{W: 32, S: true}}
			} else {
				c := it.str.B[it.pos].(Int)
				var r Int
				if c.sym() {
					r = Int{W: 32, S: true, T: "((_ zero_extend 24) " + c.T + ")"}
				} else {
					r = Int{W: 32, S: true, C: c.C}
				}
				fr.env[in] = Tuple{Bool{C: true}, Int{W: 64, S: true, C: uint64(it.pos)}, r}
				it.pos++
			}
			break
		}
		if it.m != nil && e.threads != nil {
			e.raceMap(it.m, false)
		}
		for it.m != nil && it.pos < len(it.order) && it.m.dead[it.order[it.pos]] {
			it.pos++
		}
		if it.m == nil || it.pos >= len(it.order) {
			fr.env[in] = Tuple{Bool{}, nil, nil}
		} else {
			i := it.order[it.pos]
			it.pos++
			fr.env[in] = Tuple{Bool{C: true}, copyVal(it.m.keys[i]), copyVal(it.m.vals[i])}
		}
	case *ssa.MakeClosure:
		c := Closure{Fn: in.Fn.(*ssa.Function)}
		for _, b := range in.Bindings {
			c.Env = append(c.Env, e.get(fr, b))
		}
		fr.env[in] = c
	case *ssa.Defer:
		args := make([]Val, len(in.Call.Args))
		for i, a := range in.Call.Args {
			args[i] = e.get(fr, a)
		}
		if in.Call.IsInvoke() {
			recv := e.get(fr, in.Call.Value).(Iface)
			call := in.Call
			fr.defers = append(fr.defers, func() { e.invoke(recv, call.Method, args) })
		} else {
			f := e.get(fr, in.Call.Value)
			fr.defers = append(fr.defers, func() { e.callVal(f, args) })
		}
	case *ssa.RunDefers:
		e.runDefers(fr)
	case *ssa.Call:
		args := make([]Val, len(in.Call.Args))
		for i, a := range in.Call.Args {
			args[i] = e.get(fr, a)
		}
		if in.Call.IsInvoke() {
			recv := e.get(fr, in.Call.Value).(Iface)
			fr.env[in] = e.invoke(recv, in.Call.Method, args)
		} else {
			fr.env[in] = e.callVal(e.get(fr, in.Call.Value), args)
		}
	case *ssa.MakeChan:
		n := e.concInt(e.get(fr, in.Size), "chan size")
		e.objID++
		fr.env[in] = Chan{C: &ChanObj{cap: n, id: e.objID}}
	case *ssa.Send:
		ch := e.get(fr, in.Chan).(Chan)
		e.send(ch, e.get(fr, in.X))
	case *ssa.Select:
		e.selectOp(fr, in)
	case *ssa.Go:
		args := make([]Val, len(in.Call.Args))
		for i, a := range in.Call.Args {
			args[i] = e.get(fr, a)
		}
		if in.Call.IsInvoke() {
			recv := e.get(fr, in.Call.Value).(Iface)
			call := in.Call
			e.spawnThread(func() { e.invoke(recv, call.Method, args) }, "start")
		} else {
			f := e.get(fr, in.Call.Value)
			e.spawnThread(func() { e.callVal(f, args) }, "start")
		}
	default:
		unsup("instr %T: %s", in, in)
	}
}

func (e *Engine) implements(t types.Type, it types.Type) bool {
	iface := it.Underlying().(*types.Interface)
	subset := func(names ...string) bool {
		for i := 0; i < iface.NumMethods(); i++ {
			ok := false
			for _, n := range names {
				if iface.Method(i).Name() == n {
					ok = true
				}
			}
			if !ok {
				return false
			}
		}
		return true
	}
	switch t {
	case e.opaqueT:
		return subset("Error", "Unwrap", "Is")
	case e.ctxT:
		return subset("Value", "Done", "Err", "Deadline")
	case e.logT:
		return true
	}
	return types.Implements(t, iface)
}

func (e *Engine) invoke(recv Iface, method *types.Func, args []Val) Val {
	if recv.T == nil {
		e.rtPanic("invalid memory address or nil pointer dereference (method call on nil interface: " + method.Name() + ")")
	}
	if op, ok := recv.V.(*Opaque); ok {
		switch recv.T {
		case e.opaqueT:
			return e.opaqueMethod(op, method.Name(), args)
		case e.ctxT:
			return e.ctxMethod(op, method.Name(), args)
		case e.logT:
			return e.logStubSig(method.Type().(*types.Signature), args)
		}
	}
	m := e.prog.LookupMethod(recv.T, method.Pkg(), method.Name())
	if m == nil {
		unsup("method %s not found on %s", method.Name(), recv.T)
	}
	return e.call(m, append([]Val{recv.V}, args...), nil)
}

// index returns a concrete in-range index (case-splitting a symbolic one), panicking like Go when out of range
func (e *Engine) index(v Val, n int, what string) int {
	i := v.(Int)
	if i.sym() {
		// out-of-range side
		var oob Bool
		if i.S {
			oob = Bool{T: fmt.Sprintf("(or (bvslt %s %s) (bvsge %s %s))", i.T, bvLit(0, i.W), i.T, bvLit(uint64(n), i.W))}
		} else {
			oob = Bool{T: fmt.Sprintf("(bvuge %s %s)", i.T, bvLit(uint64(n), i.W))}
		}
		if e.branch(oob) {
			e.rtPanic(fmt.Sprintf("index out of range [symbolic] with length %d", n))
		}
		return e.concInt(i, what)
	}
	idx := e.concInt(i, what)
	if idx < 0 || idx >= n {
		e.rtPanic(fmt.Sprintf("index out of range [%d] with length %d", idx, n))
	}
	return idx
}

// iteChain encodes cells[i] for a symbolic index over integer cells
func (e *Engine) iteChain(i Int, cells []Val, what string) Val {
	n := len(cells)
	var oob Bool
	if i.S {
		oob = Bool{T: fmt.Sprintf("(or (bvslt %s %s) (bvsge %s %s))", i.T, bvLit(0, i.W), i.T, bvLit(uint64(n), i.W))}
	} else {
		oob = Bool{T: fmt.Sprintf("(bvuge %s %s)", i.T, bvLit(uint64(n), i.W))}
	}
	if e.branch(oob) {
		e.rtPanic(fmt.Sprintf("index out of range [symbolic] with length %d", n))
	}
	c0 := cells[0].(Int)
	t := cells[n-1].(Int).term()
	for k := n - 2; k >= 0; k-- {
		t = fmt.Sprintf("(ite (= %s %s) %s %s)", i.T, bvLit(uint64(k), i.W), cells[k].(Int).term(), t)
	}
	return Int{W: c0.W, S: c0.S, T: e.nameBV(t, c0.W)}
}

func (e *Engine) sliceOp(fr *frame, in *ssa.Slice) {
	lo, hi, mx := 0, -1, -1
	if in.Low != nil {
		lo = e.concInt(e.get(fr, in.Low), "slice low")
	}
	if in.High != nil {
		hi = e.concInt(e.get(fr, in.High), "slice high")
	}
	if in.Max != nil {
		mx = e.concInt(e.get(fr, in.Max), "slice max")
	}
	switch x := e.get(fr, in.X).(type) {
	case Ptr:
		if x.O == nil {
			e.rtPanic("invalid memory address or nil pointer dereference")
		}
		n := len(e.loadRaw(x).(Agg).F)
		if hi < 0 {
			hi = n
		}
		if mx < 0 {
			mx = n
		}
		if lo < 0 || lo > hi || hi > mx || mx > n {
			e.rtPanic("slice bounds out of range")
		}
		fr.env[in] = Slice{O: x.O, Base: x.P, Off: lo, Len: hi - lo, Cap: mx - lo}
	case Slice:
		if hi < 0 {
			hi = x.Len
		}
		if mx < 0 {
			mx = x.Cap
		}
		if lo < 0 || lo > hi || hi > mx || mx > x.Cap {
			e.rtPanic(fmt.Sprintf("slice bounds out of range [%d:%d] with capacity %d", lo, hi, x.Cap))
		}
		if x.O == nil {
			fr.env[in] = Slice{}
			break
		}
		fr.env[in] = Slice{O: x.O, Base: x.Base, Off: x.Off + lo, Len: hi - lo, Cap: mx - lo}
	case Str:
		if hi < 0 {
			hi = len(x.B)
		}
		if lo < 0 || lo > hi || hi > len(x.B) {
			e.rtPanic(fmt.Sprintf("slice bounds out of range [%d:%d] with length %d", lo, hi, len(x.B)))
		}
		fr.env[in] = Str{B: x.B[lo:hi]}
	default:
		unsup("slice of %T", x)
	}
}

// ---- maps ----

func (e *Engine) canonKey(v Val) string {
	switch x := v.(type) {
	case Int:
		if x.sym() {
			unsup("symbolic map key")
		}
		return fmt.Sprintf("i%d:%d", x.W, x.C)
	case Bool:
		if x.sym() {
			unsup("symbolic bool map key")
		}
		return fmt.Sprint("b", x.C)
	case Flt:
		if x.sym() {
			unsup("symbolic float map key")
		}
		return fmt.Sprintf("f%d:%d", x.W, x.C)
	case Str:
		c, ok := x.concrete()
		if !ok {
			unsup("symbolic string map key")
		}
		return "s:" + c
	case Agg:
		var sb strings.Builder
		sb.WriteByte('{')
		for _, f := range x.F {
			sb.WriteString(e.canonKey(f))
			sb.WriteByte(',')
		}
		sb.WriteByte('}')
		return sb.String()
	case Iface:
		if x.T == nil {
			return "nil"
		}
		return x.T.String() + ":" + e.canonKey(x.V)
	case Ptr:
		if x.O == nil {
			return "p0"
		}
		return fmt.Sprintf("p%d%v", x.O.id, x.P)
	case *Opaque:
		return fmt.Sprintf("o%p", x)
	case Chan:
		if x.C == nil {
			return "c0"
		}
		return fmt.Sprintf("c%d", x.C.id)
	}
	unsup("map key %T", v)
	return ""
}

func (e *Engine) mapFind(m *MapObj, k Val) (int, bool) {
	if e.threads != nil {
		e.raceMap(m, false)
	}
	i, ok := m.idx[e.canonKey(k)]
	return i, ok
}

func (e *Engine) mapSet(m *MapObj, k, v Val) {
	if e.threads != nil {
		e.raceMap(m, true)
	}
	ck := e.canonKey(k)
	if i, ok := m.idx[ck]; ok {
		m.vals[i] = copyVal(v)
		return
	}
	// like the runtime, reuse the first free slot (matters for the iteration order after deletions)
	for i := range m.keys {
		if m.dead[i] {
			delete(m.dead, i)
			m.idx[ck] = i
			m.keys[i], m.vals[i] = copyVal(k), copyVal(v)
			return
		}
	}
	m.idx[ck] = len(m.keys)
	m.keys = append(m.keys, copyVal(k))
	m.vals = append(m.vals, copyVal(v))
}

func (e *Engine) mapDelete(m *MapObj, k Val) {
	if e.threads != nil {
		e.raceMap(m, true)
	}
	ck := e.canonKey(k)
	if i, ok := m.idx[ck]; ok {
		m.dead[i] = true
		delete(m.idx, ck)
	}
}

// ---- channels (bounded FIFOs; with threads: blocking operations wait, unbuffered channels rendezvous) ----

func chanKey(ch *ChanObj) string { return fmt.Sprintf("ch%d", ch.id) }

func (e *Engine) send(ch Chan, v Val) {
	if ch.C == nil {
		e.waitFor(func() bool { return false }, "send on nil channel")
	}
	e.schedPoint("chan send")
	c := ch.C
	if c.closed {
		e.rtPanic("send on closed channel")
	}
	if c.cap > 0 {
		e.waitFor(func() bool { return c.closed || len(c.buf) < c.cap }, "send on full channel")
		if c.closed {
			e.rtPanic("send on closed channel")
		}
		e.chanPut(c, v)
		return
	}
	// unbuffered: hand the value over and wait until a receiver has taken it
	if !e.mt() {
		panic(blockedPath{"send on unbuffered channel (no other goroutine exists)"})
	}
	my := c.sent
	e.chanPut(c, v)
	e.waitFor(func() bool { return c.rcvd > my }, "send on unbuffered channel")
	e.acquire(chanKey(c) + ":ack")
}

func (e *Engine) chanPut(c *ChanObj, v Val) {
	c.buf = append(c.buf, copyVal(v))
	var vc vclock
	if e.mt() {
		vc = e.cur.vc.copy()
		e.cur.vc[e.cur.id]++
	}
	c.vcs = append(c.vcs, vc)
	c.sent++
}

func (e *Engine) closeChan(c *ChanObj) {
	if c.closed {
		e.rtPanic("close of closed channel")
	}
	e.release(chanKey(c) + ":close")
	c.closed = true
}

func (e *Engine) recv(ch Chan, commaOk bool, t types.Type) Val {
	if ch.C == nil {
		e.waitFor(func() bool { return false }, "receive from nil channel")
	}
	e.schedPoint("chan receive")
	c := ch.C
	c.recvWaiting++
	e.waitFor(func() bool { return len(c.buf) > 0 || c.closed }, "receive from empty channel")
	c.recvWaiting--
	if len(c.buf) == 0 {
		e.acquire(chanKey(c) + ":close")
		var z Val
		if commaOk {
			z = zero(t.(*types.Tuple).At(0).Type())
			return Tuple{z, Bool{}}
		}
		return zero(t)
	}
	v := c.buf[0]
	c.buf = c.buf[1:]
	if e.mt() && len(c.vcs) > 0 {
		if c.vcs[0] != nil {
			e.cur.vc.join(c.vcs[0])
		}
		if c.cap == 0 {
			e.release(chanKey(c) + ":ack")
		}
	}
	if len(c.vcs) > 0 {
		c.vcs = c.vcs[1:]
	}
	c.rcvd++
	if commaOk {
		return Tuple{v, Bool{C: true}}
	}
	return v
}

func (e *Engine) selectOp(fr *frame, in *ssa.Select) {
	// choose the first ready case in source order among ready ones — with a fork over all ready cases
	e.schedPoint("select")
	var ready []int
	compute := func() bool {
		ready = ready[:0]
		for i, st := range in.States {
			ch := e.get(fr, st.Chan).(Chan)
			if ch.C == nil {
				continue
			}
			if st.Dir == types.SendOnly {
				if ch.C.closed || len(ch.C.buf) < ch.C.cap || (ch.C.cap == 0 && ch.C.recvWaiting > 0 && len(ch.C.buf) == 0) {
					ready = append(ready, i)
				}
			} else if len(ch.C.buf) > 0 || ch.C.closed {
				ready = append(ready, i)
			}
		}
		return len(ready) > 0
	}
	compute()
	if len(ready) == 0 && in.Blocking && e.mt() {
		var waits []*ChanObj
		for _, st := range in.States {
			if ch := e.get(fr, st.Chan).(Chan); ch.C != nil && st.Dir == types.RecvOnly {
				waits = append(waits, ch.C)
			}
		}
		for _, c := range waits {
			c.recvWaiting++
		}
		e.waitFor(compute, "select with no ready case")
		for _, c := range waits {
			c.recvWaiting--
		}
		compute()
	}
	res := Tuple{Int{W: 64, S: true}, Bool{}}
	for _, st := range in.States {
		if st.Dir == types.RecvOnly {
			res = append(res, zero(st.Chan.Type().Underlying().(*types.Chan).Elem()))
		}
	}
	if len(ready) == 0 {
		if !in.Blocking {
			res[0] = Int{W: 64, S: true, C: mask(64)} // -1
			fr.env[in] = res
			return
		}
		panic(blockedPath{"select with no ready case"})
	}
	pick := ready[0]
	if len(ready) > 1 && !e.concrete {
		pick = ready[e.chooseN(len(ready))]
	}
	res[0] = Int{W: 64, S: true, C: uint64(pick)}
	ri := 2
	for i, st := range in.States {
		if st.Dir == types.RecvOnly {
			if i == pick {
				ch := e.get(fr, st.Chan).(Chan)
				e.noSched++
				defer func() { e.noSched-- }()
				r := e.recv(ch, true, types.NewTuple(types.NewVar(0, nil, "", st.Chan.Type().Underlying().(*types.Chan).Elem()), types.NewVar(0, nil, "", types.Typ[types.Bool]))).(Tuple)
				res[ri] = r[0]
				res[1] = r[1]
			}
			ri++
		} else if i == pick {
			e.send(e.get(fr, st.Chan).(Chan), e.get(fr, st.Send))
		}
	}
	fr.env[in] = res
}
