// bigfloat.go: a model of *math/big.Float for the handful of operations the planner's min / max nodes use
// (SetInt64, SetUint64, SetFloat64, NewFloat, Cmp, Sign, Float64, Int64). A big.Float set from an int64, a uint64 or a
// float64 holds that number exactly (default precision 64 / 53 bits), so the model keeps the *origin* value; comparisons
// are made exactly in IEEE binary128 (113-bit significand: every int64 and every float64 is representable), Float64 of an
// integer rounds to nearest even, Int64 of a float truncates toward zero and saturates — what math/big does.
// With concrete operands everything is computed with the real math/big.
package main

import (
	"go/types"
	"math"
	"math/big"

	"golang.org/x/tools/go/ssa"
)

// BigF is kept in the first field of the big.Float object: V is an Int (W 64) or a Flt (W 64)
type BigF struct{ V Val }

func (e *Engine) bigGet(p Ptr) BigF {
	if p.O == nil {
		e.rtPanic("invalid memory address or nil pointer dereference (big.Float)")
	}
	a := e.loadRaw(p).(Agg)
	if b, ok := a.F[0].(BigF); ok {
		return b
	}
	return BigF{V: Int{W: 64, S: true}}
}

func (e *Engine) bigSet(p Ptr, v Val) {
	if p.O == nil {
		e.rtPanic("invalid memory address or nil pointer dereference (big.Float)")
	}
	e.loadRaw(p).(Agg).F[0] = BigF{V: v}
}

func (b BigF) concrete() (*big.Float, bool) {
	switch x := b.V.(type) {
	case Int:
		if x.sym() {
			return nil, false
		}
		if x.S {
			return new(big.Float).SetInt64(int64(x.C)), true
		}
		return new(big.Float).SetUint64(x.C), true
	case Flt:
		if x.sym() {
			return nil, false
		}
		return new(big.Float).SetFloat64(math.Float64frombits(x.C)), true
	}
	return nil, false
}

func (b BigF) term128() string {
	switch x := b.V.(type) {
	case Int:
		if x.S {
			return "((_ to_fp 15 113) RNE " + x.term() + ")"
		}
		return "((_ to_fp_unsigned 15 113) RNE " + x.term() + ")"
	case Flt:
		return "((_ to_fp 15 113) RNE " + x.term() + ")"
	}
	panic("BigF")
}

func bigSign(e *Engine, a, b BigF) Val {
	if ca, ok := a.concrete(); ok {
		if cb, ok := b.concrete(); ok {
			return Int{W: 64, S: true, C: uint64(int64(ca.Cmp(cb)))}
		}
	}
	x, y := a.term128(), b.term128()
	return Int{W: 64, S: true, T: "(ite (fp.lt " + x + " " + y + ") #xffffffffffffffff (ite (fp.gt " + x + " " + y + ") #x0000000000000001 #x0000000000000000))"}
}

// BigI: *math/big.Int for crypto/rand.Int / NewInt / Int64 (the value is kept in the first field of the object)
type BigI struct{ V Int }

func bigStubs() map[string]stubFn {
	return map[string]stubFn{
		// crypto/rand.Int(reader, max): a fresh value in [0, max) — randomness is an input of the path; the number of
		// readings is available to harnesses as vRandCount()
		"crypto/rand.Int": func(e *Engine, fn *ssa.Function, args []Val) Val {
			t := fn.Signature.Results().At(0).Type().(*types.Pointer).Elem()
			p := Ptr{O: e.newObj(zero(t))}
			e.randReads++
			v := e.freshInput("rand", 64, true)
			if mp, ok := args[1].(Ptr); ok && mp.O != nil {
				if b, ok := e.loadRaw(mp).(Agg).F[0].(BigI); ok {
					if v.sym() {
						e.doAssume(Bool{T: "(and (bvsge " + v.T + " #x0000000000000000) (bvslt " + v.T + " " + b.V.term() + "))"}, "rand.Int range")
					} else if !b.V.sym() && b.V.C != 0 {
						v.C = v.C % b.V.C
					}
				}
			}
			e.loadRaw(p).(Agg).F[0] = BigI{V: v}
			return Tuple{p, Iface{}}
		},
		"math/big.NewInt": func(e *Engine, fn *ssa.Function, args []Val) Val {
			t := fn.Signature.Results().At(0).Type().(*types.Pointer).Elem()
			p := Ptr{O: e.newObj(zero(t))}
			x := args[0].(Int)
			x.S = true
			e.loadRaw(p).(Agg).F[0] = BigI{V: x}
			return p
		},
		"(*math/big.Int).Int64": func(e *Engine, fn *ssa.Function, args []Val) Val {
			p := args[0].(Ptr)
			if p.O == nil {
				e.rtPanic("invalid memory address or nil pointer dereference (big.Int)")
			}
			if b, ok := e.loadRaw(p).(Agg).F[0].(BigI); ok {
				return b.V
			}
			return Int{W: 64, S: true}
		},
		"(*math/big.Float).SetInt64": func(e *Engine, fn *ssa.Function, args []Val) Val {
			x := args[1].(Int)
			x.S = true
			e.bigSet(args[0].(Ptr), x)
			return args[0]
		},
		"(*math/big.Float).SetUint64": func(e *Engine, fn *ssa.Function, args []Val) Val {
			x := args[1].(Int)
			x.S = false
			e.bigSet(args[0].(Ptr), x)
			return args[0]
		},
		"(*math/big.Float).SetFloat64": func(e *Engine, fn *ssa.Function, args []Val) Val {
			e.bigSet(args[0].(Ptr), args[1].(Flt))
			return args[0]
		},
		"math/big.NewFloat": func(e *Engine, fn *ssa.Function, args []Val) Val {
			t := fn.Signature.Results().At(0).Type().(*types.Pointer).Elem()
			p := Ptr{O: e.newObj(zero(t))}
			e.bigSet(p, args[0].(Flt))
			return p
		},
		"(*math/big.Float).Cmp": func(e *Engine, fn *ssa.Function, args []Val) Val {
			return bigSign(e, e.bigGet(args[0].(Ptr)), e.bigGet(args[1].(Ptr)))
		},
		"(*math/big.Float).Sign": func(e *Engine, fn *ssa.Function, args []Val) Val {
			return bigSign(e, e.bigGet(args[0].(Ptr)), BigF{V: Int{W: 64, S: true}})
		},
		"(*math/big.Float).Float64": func(e *Engine, fn *ssa.Function, args []Val) Val {
			b := e.bigGet(args[0].(Ptr))
			acc := Int{W: 8, S: true}
			if f, ok := b.V.(Flt); ok {
				return Tuple{f, acc}
			}
			if c, ok := b.concrete(); ok {
				r, _ := c.Float64()
				return Tuple{Flt{W: 64, C: math.Float64bits(r)}, acc}
			}
			x := b.V.(Int)
			op := "(_ to_fp 11 53)"
			if !x.S {
				op = "(_ to_fp_unsigned 11 53)"
			}
			return Tuple{Flt{W: 64, T: "(" + op + " RNE " + x.T + ")"}, acc}
		},
		"(*math/big.Float).Int64": func(e *Engine, fn *ssa.Function, args []Val) Val {
			b := e.bigGet(args[0].(Ptr))
			acc := Int{W: 8, S: true}
			if c, ok := b.concrete(); ok {
				r, _ := c.Int64()
				return Tuple{Int{W: 64, S: true, C: uint64(r)}, acc}
			}
			switch x := b.V.(type) {
			case Int:
				if x.S {
					return Tuple{x, acc}
				}
				// unsigned above MaxInt64 saturates
				return Tuple{Int{W: 64, S: true, T: "(ite (bvslt " + x.T + " #x0000000000000000) #x7fffffffffffffff " + x.T + ")"}, acc}
			case Flt:
				f := x.T
				hi := "((_ to_fp 11 53) #x43e0000000000000)" // 2^63
				lo := "((_ to_fp 11 53) #xc3e0000000000000)" // -2^63
				t := "(ite (fp.geq " + f + " " + hi + ") #x7fffffffffffffff (ite (fp.lt " + f + " " + lo + ") #x8000000000000000 ((_ fp.to_sbv 64) RTZ " + f + ")))"
				return Tuple{Int{W: 64, S: true, T: t}, acc}
			}
			panic("BigF")
		},
	}
}
