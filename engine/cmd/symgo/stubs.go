// stubs.go: harness intrinsics, the stub/model table (trusted base — printed into every evidence
// file with hit counts), the opaque error model.
package main

import (
	"encoding/base32"
	"fmt"
	"go/token"
	"go/types"
	"math"
	"path/filepath"
	"strconv"
	"strings"

	"golang.org/x/tools/go/ssa"
)

func (e *Engine) isHarnessFn(fn *ssa.Function) bool {
	if fn.Pkg == nil {
		return false
	}
	pos := fn.Pos()
	if !pos.IsValid() {
		return false
	}
	return strings.HasPrefix(filepath.Base(e.prog.Fset.Position(pos).Filename), "zz_verif")
}

func (e *Engine) argStr(v Val, what string) string { return mustStr(v, what) }

func (e *Engine) confVal(name string) (any, bool) {
	if e.concrete {
		// conf is identical in both modes; taken from the job
	}
	v, ok := e.job.Conf[name]
	return v, ok
}

// intrinsic: the harness language (functions v* declared in zz_verif_* files)
func (e *Engine) intrinsic(fn *ssa.Function, args []Val) (Val, bool) {
	name := fn.Name()
	if len(name) < 2 || name[0] != 'v' || name[1] < 'A' || name[1] > 'Z' || !e.isHarnessFn(fn) {
		return nil, false
	}
	switch name {
	case "vBool":
		n := e.argStr(args[0], name)
		b := e.freshInput(n, 1, false)
		if !b.sym() {
			return Bool{C: b.C&1 == 1}, true
		}
		return Bool{T: "(= " + b.T + " #b1)"}, true
	case "vU8":
		return e.freshInput(e.argStr(args[0], name), 8, false), true
	case "vU16":
		return e.freshInput(e.argStr(args[0], name), 16, false), true
	case "vU32":
		return e.freshInput(e.argStr(args[0], name), 32, false), true
	case "vU64":
		return e.freshInput(e.argStr(args[0], name), 64, false), true
	case "vI8":
		return e.freshInput(e.argStr(args[0], name), 8, true), true
	case "vI16":
		return e.freshInput(e.argStr(args[0], name), 16, true), true
	case "vI32":
		return e.freshInput(e.argStr(args[0], name), 32, true), true
	case "vI64", "vInt":
		return e.freshInput(e.argStr(args[0], name), 64, true), true
	case "vF64":
		b := e.freshInput(e.argStr(args[0], name), 64, false)
		if !b.sym() {
			return Flt{W: 64, C: b.C}, true
		}
		return Flt{W: 64, T: fpOfBits(b.T, 64)}, true
	case "vF32":
		b := e.freshInput(e.argStr(args[0], name), 32, false)
		if !b.sym() {
			return Flt{W: 32, C: b.C}, true
		}
		return Flt{W: 32, T: fpOfBits(b.T, 32)}, true
	case "vChoose":
		n := e.argStr(args[0], name)
		k := e.concInt(args[1], "vChoose n")
		key := e.inputName(n)
		if k <= 0 {
			panic(abortPath{"vChoose over empty range"})
		}
		var c int
		if e.concrete {
			c = int(e.vector[key] % uint64(k))
		} else {
			c = e.chooseN(k)
			e.chosen[key] = uint64(c)
		}
		return Int{W: 64, S: true, C: uint64(c)}, true
	case "vAssume":
		e.doAssume(args[0].(Bool), "assume")
		return nil, true
	case "vAssert":
		e.doAssert(args[0].(Bool), e.argStr(args[1], name))
		return nil, true
	case "vBound":
		// a bound of the harness itself (not part of the property): if it can be exceeded the run is
		// BOUND-EXCEEDED (machinery problem), never a violation
		c := args[0].(Bool)
		if !c.sym() {
			if !c.C {
				panic(boundExceeded{"harness bound: " + e.argStr(args[1], name)})
			}
			return nil, true
		}
		if e.sol.checkWith("(not "+c.T+")") != "unsat" {
			panic(boundExceeded{"harness bound: " + e.argStr(args[1], name)})
		}
		return nil, true
	case "vFail":
		e.doAssert(Bool{}, e.argStr(args[0], name))
		return nil, true
	case "vCover":
		e.covers[e.argStr(args[0], name)]++
		return nil, true
	case "vObserve":
		if e.concrete {
			e.obs = append(e.obs, e.argStr(args[0], name)+"="+e.fmtObs(args[1]))
		}
		return nil, true
	case "vConfInt":
		n := e.argStr(args[0], name)
		v, ok := e.confVal(n)
		if !ok {
			unsup("missing conf int %q", n)
		}
		switch x := v.(type) {
		case float64:
			return Int{W: 64, S: true, C: uint64(int64(x))}, true
		case int:
			return Int{W: 64, S: true, C: uint64(int64(x))}, true
		case int64:
			return Int{W: 64, S: true, C: uint64(x)}, true
		}
		unsup("conf %q is not an int", n)
	case "vConfStr":
		n := e.argStr(args[0], name)
		v, ok := e.confVal(n)
		if !ok {
			unsup("missing conf string %q", n)
		}
		s, ok := v.(string)
		if !ok {
			unsup("conf %q is not a string", n)
		}
		return mkStr(s), true
	case "vAnd":
		return bAnd(args[0].(Bool), args[1].(Bool)), true
	case "vOr":
		return bOr(args[0].(Bool), args[1].(Bool)), true
	case "vImplies":
		return bOr(bNot(args[0].(Bool)), args[1].(Bool)), true
	case "vMutexHeld":
		k := e.ghostKey(args[0].(Ptr))
		return Bool{C: e.locks != nil && e.locks[k] != 0}, true
	case "vDeadlocked":
		panic(deadlockPath{e.argStr(args[0], name)})
	case "vRandCount":
		return Int{W: 64, S: true, C: uint64(e.randReads)}, true
	case "vYield":
		e.freeYield("vYield")
		return nil, true
	case "vSymbolic":
		// true inside symgo (symbolic exploration and concrete re-execution alike), false natively
		return Bool{C: true}, true
	case "vCanonBytes":
		// canonical, injective serialisation of a Go value (the model of a reflection-based codec)
		var out []Val
		e.canonSerialize(args[0], &out, 0)
		return Slice{O: e.newObj(Agg{F: out}), Len: len(out), Cap: len(out)}, true
	case "vOpaqueBytes":
		// an opaque byte-string object standing for e.g. a ciphertext: unobservable content
		return Iface{T: e.opaqueT, V: e.newOpaque(e.argStr(args[0], name), args[1:]...)}, true
	}
	return nil, false
}

func (e *Engine) newOpaque(kind string, args ...Val) *Opaque {
	e.objID++
	return &Opaque{Kind: kind, Args: args, id: e.objID}
}

func (e *Engine) fmtObs(v Val) string {
	switch x := v.(type) {
	case Iface:
		if x.T == nil {
			return "nil"
		}
		if b, ok := x.T.Underlying().(*types.Basic); ok && b.Info()&types.IsInteger != 0 {
			i := x.V.(Int)
			if b.Info()&types.IsUnsigned == 0 {
				return "i:" + strconv.FormatInt(sext(i.C, i.W), 10)
			}
			return "u:" + strconv.FormatUint(i.C&mask(i.W), 10)
		}
		if _, ok := x.V.(*Opaque); ok {
			return "err"
		}
		return e.fmtObs(x.V)
	case Int:
		return "n:" + strconv.FormatUint(x.C&mask(x.W), 10)
	case Bool:
		return "b:" + strconv.FormatBool(x.C)
	case Flt:
		return fmt.Sprintf("f:%x", x.C)
	case Str:
		s, _ := x.concrete()
		return fmt.Sprintf("s:%x", s)
	case Slice:
		var sb strings.Builder
		sb.WriteString("x:")
		for _, c := range e.cells(x) {
			ci, ok := c.(Int)
			if !ok {
				return "x:?"
			}
			fmt.Fprintf(&sb, "%02x", ci.C&0xff)
		}
		return sb.String()
	case Ptr:
		if x.O == nil {
			return "p:nil"
		}
		return "p:set"
	}
	return fmt.Sprintf("?%T", v)
}

// ---- opaque errors ----

func (e *Engine) opaqueErr(kind string, args ...Val) Iface {
	return Iface{T: e.opaqueT, V: e.newOpaque(kind, args...)}
}

func (e *Engine) opaqueMethod(op *Opaque, name string, args []Val) Val {
	switch name {
	case "Error", "String":
		return mkStr(e.errMessage(op))
	case "Unwrap":
		if in := e.errInner(Iface{T: e.opaqueT, V: op}); in != nil {
			return *in
		}
		return Iface{}
	case "Is":
		return Bool{C: e.errIs(Iface{T: e.opaqueT, V: op}, args[0].(Iface))}
	}
	unsup("method %s on opaque value %s", name, op.Kind)
	return nil
}

func (e *Engine) errMessage(op *Opaque) string {
	switch op.Kind {
	case "defraError", "stderror":
		if s, ok := op.Args[0].(Str); ok {
			if cs, ok := s.concrete(); ok {
				return cs
			}
		}
	}
	return "<" + op.Kind + ">"
}

func (e *Engine) errInner(x Iface) *Iface {
	if op, ok := x.V.(*Opaque); ok && x.T == e.opaqueT {
		for _, a := range op.Args[min(1, len(op.Args)):] {
			if ai, ok := a.(Iface); ok && ai.T != nil {
				return &ai
			}
		}
		return nil
	}
	// real Go error type with Unwrap() error
	if x.T != nil {
		if m := e.lookupMethodByName(x.T, "Unwrap"); m != nil && m.Signature.Results().Len() == 1 {
			if r, ok := e.call(m, []Val{x.V}, nil).(Iface); ok && r.T != nil {
				return &r
			}
		}
	}
	return nil
}

func (e *Engine) lookupMethodByName(t types.Type, name string) *ssa.Function {
	ms := e.prog.MethodSets.MethodSet(t)
	for i := 0; i < ms.Len(); i++ {
		if ms.At(i).Obj().Name() == name {
			return e.prog.MethodValue(ms.At(i))
		}
	}
	return nil
}

func (e *Engine) errIs(a, b Iface) bool {
	if b.T == nil {
		return a.T == nil
	}
	for depth := 0; a.T != nil && depth < 20; depth++ {
		if types.Identical(a.T, b.T) && types.Comparable(a.T) {
			eq := e.valEq(a.V, b.V)
			if e.branch(eq) {
				return true
			}
		}
		if ao, ok := a.V.(*Opaque); ok && a.T == e.opaqueT {
			if bo, ok := b.V.(*Opaque); ok && b.T == e.opaqueT {
				if ao.Kind == "defraError" && (bo.Kind == "defraError" || bo.Kind == "stderror") {
					if e.errMessage(ao) == e.errMessage(bo) {
						return true
					}
				}
			}
			// joined errors: any member
			if ao.Kind == "join" {
				for _, m := range ao.Args {
					if mi, ok := m.(Iface); ok && mi.T != nil && e.errIs(mi, b) {
						return true
					}
				}
				return false
			}
			// all wrapped errors
			found := false
			for _, x := range ao.Args[min(1, len(ao.Args)):] {
				if xi, ok := x.(Iface); ok && xi.T != nil && e.errIs(xi, b) {
					found = true
					break
				}
			}
			return found
		} else if m := e.lookupMethodByName(a.T, "Is"); m != nil && m.Signature.Params().Len() == 1 {
			if r, ok := e.call(m, []Val{a.V, b}, nil).(Bool); ok && e.branch(r) {
				return true
			}
		}
		in := e.errInner(a)
		if in == nil {
			return false
		}
		a = *in
	}
	return false
}

// ---- stub table ----

type stubFn func(e *Engine, fn *ssa.Function, args []Val) Val

var stubTable map[string]stubFn

func i64(v int64) Int  { return Int{W: 64, S: true, C: uint64(v)} }
func u64(v uint64) Int { return Int{W: 64, C: v} }

func (e *Engine) bytesOf(v Val) []Val {
	switch x := v.(type) {
	case Slice:
		return e.cells(x)
	case Str:
		return x.B
	}
	unsup("bytesOf %T", v)
	return nil
}

func (e *Engine) cmpResult(l, eq Bool) Val {
	if !l.sym() && !eq.sym() {
		switch {
		case l.C:
			return i64(-1)
		case eq.C:
			return i64(0)
		}
		return i64(1)
	}
	return Int{W: 64, S: true, T: e.nameBV(fmt.Sprintf("(ite %s #xffffffffffffffff (ite %s #x0000000000000000 #x0000000000000001))", l.term(), eq.term()), 64)}
}

func (e *Engine) indexByte(cells []Val, c Int) Val {
	for i, b := range cells {
		if e.branch(intEq(b.(Int), c)) {
			return i64(int64(i))
		}
	}
	return i64(-1)
}

func bitsLen(e *Engine, x Int, w int) Val {
	if !x.sym() {
		n := 0
		for v := x.C & mask(w); v != 0; v >>= 1 {
			n++
		}
		return i64(int64(n))
	}
	// ite chain over the position of the highest set bit
	t := bvLit(0, 64)
	for k := 1; k <= w; k++ {
		// if x >= 2^(k-1) then at least k
		t = fmt.Sprintf("(ite (bvuge %s %s) %s %s)", x.T, bvLit(uint64(1)<<uint(k-1), w), bvLit(uint64(k), 64), t)
	}
	return Int{W: 64, S: true, T: e.nameBV(t, 64)}
}

func init() {
	cmpFn := func(e *Engine, fn *ssa.Function, args []Val) Val {
		l, eq := lexCmp(e.bytesOf(args[0]), e.bytesOf(args[1]))
		return e.cmpResult(l, eq)
	}
	nop := func(e *Engine, fn *ssa.Function, args []Val) Val { return e.zeroResults(fn) }
	ident := func(e *Engine, fn *ssa.Function, args []Val) Val { return args[0] }
	stubTable = map[string]stubFn{
		"bytes.Compare":               cmpFn,
		"internal/bytealg.Compare":    cmpFn,
		"strings.Compare":             cmpFn,
		"internal/bytealg.CompareString": cmpFn,
		"bytes.IndexByte": func(e *Engine, fn *ssa.Function, args []Val) Val {
			return e.indexByte(e.bytesOf(args[0]), args[1].(Int))
		},
		"internal/bytealg.IndexByte": func(e *Engine, fn *ssa.Function, args []Val) Val {
			return e.indexByte(e.bytesOf(args[0]), args[1].(Int))
		},
		"internal/bytealg.IndexByteString": func(e *Engine, fn *ssa.Function, args []Val) Val {
			return e.indexByte(e.bytesOf(args[0]), args[1].(Int))
		},
		"strings.IndexByte": func(e *Engine, fn *ssa.Function, args []Val) Val {
			return e.indexByte(e.bytesOf(args[0]), args[1].(Int))
		},
		"internal/bytealg.Equal": func(e *Engine, fn *ssa.Function, args []Val) Val {
			a, b := e.bytesOf(args[0]), e.bytesOf(args[1])
			if len(a) != len(b) {
				return Bool{}
			}
			_, eq := lexCmp(a, b)
			return eq
		},
		"internal/bytealg.MakeNoZero": func(e *Engine, fn *ssa.Function, args []Val) Val {
			n := e.concInt(args[0], "MakeNoZero")
			a := Agg{F: make([]Val, n)}
			for i := range a.F {
				a.F[i] = Int{W: 8}
			}
			return Slice{O: e.newObj(a), Len: n, Cap: n}
		},
		"internal/abi.NoEscape":   ident,
		"strings.noescape":        ident,
		"internal/abi.Escape":     ident,
		"math.Float64bits":        stubFloatBits,
		"math.Float32bits":        stubFloatBits,
		"math.Float64frombits":    stubFloatFromBits,
		"math.Float32frombits":    stubFloatFromBits,
		"math.IsNaN": func(e *Engine, fn *ssa.Function, args []Val) Val {
			f := args[0].(Flt)
			if !f.sym() {
				return Bool{C: math.IsNaN(f.f64())}
			}
			return Bool{T: "(fp.isNaN " + f.T + ")"}
		},
		"math.IsInf": func(e *Engine, fn *ssa.Function, args []Val) Val {
			f := args[0].(Flt)
			sign := e.concInt(args[1], "IsInf sign")
			if !f.sym() {
				return Bool{C: math.IsInf(f.f64(), sign)}
			}
			switch {
			case sign > 0:
				return Bool{T: "(and (fp.isInfinite " + f.T + ") (fp.isPositive " + f.T + "))"}
			case sign < 0:
				return Bool{T: "(and (fp.isInfinite " + f.T + ") (fp.isNegative " + f.T + "))"}
			}
			return Bool{T: "(fp.isInfinite " + f.T + ")"}
		},
		"math.NaN": func(e *Engine, fn *ssa.Function, args []Val) Val { return Flt{W: 64, C: math.Float64bits(math.NaN())} },
		"math.Inf": func(e *Engine, fn *ssa.Function, args []Val) Val {
			return Flt{W: 64, C: math.Float64bits(math.Inf(e.concInt(args[0], "Inf sign")))}
		},
		"math.Abs": func(e *Engine, fn *ssa.Function, args []Val) Val {
			f := args[0].(Flt)
			if !f.sym() {
				return Flt{W: 64, C: math.Float64bits(math.Abs(f.f64()))}
			}
			return Flt{W: 64, T: "(fp.abs " + f.T + ")"}
		},
		"math.Signbit": func(e *Engine, fn *ssa.Function, args []Val) Val {
			f := args[0].(Flt)
			if !f.sym() {
				return Bool{C: math.Signbit(f.f64())}
			}
			if b, ok := f.bitsTerm(); ok {
				return Bool{T: "(= ((_ extract 63 63) " + b + ") #b1)"}
			}
			return Bool{T: "(fp.isNegative " + f.T + ")"} // NaN sign unobservable here
		},
		"math/bits.Len64": func(e *Engine, fn *ssa.Function, args []Val) Val { return bitsLen(e, args[0].(Int), 64) },
		"math/bits.Len32": func(e *Engine, fn *ssa.Function, args []Val) Val { return bitsLen(e, args[0].(Int), 32) },
		"math/bits.Len": func(e *Engine, fn *ssa.Function, args []Val) Val { return bitsLen(e, args[0].(Int), 64) },
		"math/bits.LeadingZeros64": func(e *Engine, fn *ssa.Function, args []Val) Val {
			l := bitsLen(e, args[0].(Int), 64).(Int)
			return e.intBinop(token.SUB, i64(64), l, true)
		},
		// synchronisation: single-threaded execution; mutexes are ghost state
		"(*sync.Mutex).Lock":      stubLock,
		"(*sync.Mutex).Unlock":    stubUnlock,
		"(*sync.Mutex).TryLock":   stubLock,
		"(*sync.RWMutex).Lock":    stubLock,
		"(*sync.RWMutex).Unlock":  stubUnlock,
		"(*sync.RWMutex).RLock":   stubRLock,
		"(*sync.RWMutex).RUnlock": stubRUnlock,
		"(*sync.WaitGroup).Add":   stubWGAdd,
		"(*sync.WaitGroup).Done":  stubWGAdd,
		"(*sync.WaitGroup).Wait":  stubWGWait,
		"(*sync.Once).Do": func(e *Engine, fn *ssa.Function, args []Val) Val {
			p := args[0].(Ptr)
			o := e.load(p).(Agg)
			// field 0 (done) is an atomic.Uint32/uint32 depending on version; use the Obj id as ghost
			key := fmt.Sprintf("once%d%v", p.O.id, p.P)
			if e.onceDone == nil {
				e.onceDone = map[string]bool{}
			}
			_ = o
			if !e.onceDone[key] {
				e.onceDone[key] = true
				e.callVal(args[1], nil)
				e.release(key)
			} else {
				e.acquire(key)
			}
			return nil
		},
		"errors.New": func(e *Engine, fn *ssa.Function, args []Val) Val { return e.opaqueErr("stderror", args[0]) },
		"errors.Is": func(e *Engine, fn *ssa.Function, args []Val) Val {
			return Bool{C: e.errIs(args[0].(Iface), args[1].(Iface))}
		},
		"errors.Unwrap": func(e *Engine, fn *ssa.Function, args []Val) Val {
			if in := e.errInner(args[0].(Iface)); in != nil {
				return *in
			}
			return Iface{}
		},
		"errors.Join": stubErrJoin,
		"fmt.Errorf": func(e *Engine, fn *ssa.Function, args []Val) Val {
			all := []Val{args[0]}
			for _, c := range e.cells(args[1].(Slice)) {
				if ci, ok := c.(Iface); ok && ci.T != nil && e.isErrorType(ci.T) {
					all = append(all, ci)
				}
			}
			return e.opaqueErr("fmt.Errorf", all...)
		},
		"fmt.Sprint":   stubSprint,
		"fmt.Sprintf":  stubSprintf,
		"fmt.Sprintln": stubSprint,
		"strconv.Itoa": func(e *Engine, fn *ssa.Function, args []Val) Val {
			return mkStr(strconv.Itoa(e.concInt(args[0], "strconv.Itoa")))
		},
		"strconv.FormatUint": func(e *Engine, fn *ssa.Function, args []Val) Val {
			i := args[0].(Int)
			if i.sym() {
				unsup("strconv.FormatUint of symbolic value")
			}
			return mkStr(strconv.FormatUint(i.C, e.concInt(args[1], "base")))
		},
		"strconv.FormatInt": func(e *Engine, fn *ssa.Function, args []Val) Val {
			i := args[0].(Int)
			if i.sym() {
				unsup("strconv.FormatInt of symbolic value")
			}
			return mkStr(strconv.FormatInt(int64(i.C), e.concInt(args[1], "base")))
		},
		"github.com/sourcenetwork/defradb/errors.New": func(e *Engine, fn *ssa.Function, args []Val) Val {
			return e.opaqueErr("defraError", args[0])
		},
		"github.com/sourcenetwork/defradb/errors.Wrap": func(e *Engine, fn *ssa.Function, args []Val) Val {
			return e.opaqueErr("defraError", args[0], args[1])
		},
		"github.com/sourcenetwork/defradb/errors.WithStack": func(e *Engine, fn *ssa.Function, args []Val) Val {
			// message = err.Error(); inner is dropped by the real code, but Is() compares messages:
			// keep the original as wrapped cause so that Is(target) behaves like message equality
			return e.opaqueErr("withStack", mkStr("withstack"), args[0])
		},
		"github.com/sourcenetwork/defradb/errors.NewKV": func(e *Engine, fn *ssa.Function, args []Val) Val {
			return zero(fn.Signature.Results().At(0).Type())
		},
		"github.com/sourcenetwork/defradb/errors.Join": stubErrJoin,
		"github.com/pkg/errors.New":  func(e *Engine, fn *ssa.Function, args []Val) Val { return e.opaqueErr("stderror", args[0]) },
		"github.com/pkg/errors.Errorf": func(e *Engine, fn *ssa.Function, args []Val) Val { return e.opaqueErr("stderror", args[0]) },
		"github.com/pkg/errors.Wrap": func(e *Engine, fn *ssa.Function, args []Val) Val {
			if args[0].(Iface).T == nil {
				return Iface{}
			}
			return e.opaqueErr("pkgwrap", args[1], args[0])
		},
		"github.com/pkg/errors.Wrapf": func(e *Engine, fn *ssa.Function, args []Val) Val {
			if args[0].(Iface).T == nil {
				return Iface{}
			}
			return e.opaqueErr("pkgwrap", args[1], args[0])
		},
		"github.com/pkg/errors.WithStack": func(e *Engine, fn *ssa.Function, args []Val) Val {
			if args[0].(Iface).T == nil {
				return Iface{}
			}
			return e.opaqueErr("pkgwrap", mkStr(""), args[0])
		},
		// contexts: association chain
		"context.Background": stubCtxBackground,
		"context.TODO":       stubCtxBackground,
		"context.WithValue": func(e *Engine, fn *ssa.Function, args []Val) Val {
			return Iface{T: e.ctxT, V: e.newOpaque("ctx", args[0], args[1], args[2])}
		},
		"context.WithCancel": func(e *Engine, fn *ssa.Function, args []Val) Val {
			c := Iface{T: e.ctxT, V: e.newOpaque("ctx", args[0], nil, nil)}
			return Tuple{c, Closure{Native: func(e *Engine, a []Val) Val { return nil }}}
		},
		"context.WithTimeout": func(e *Engine, fn *ssa.Function, args []Val) Val {
			c := Iface{T: e.ctxT, V: e.newOpaque("ctx", args[0], nil, nil)}
			return Tuple{c, Closure{Native: func(e *Engine, a []Val) Val { return nil }}}
		},
		// a clock that advances: the k-th reading on a path is 10 s after the previous one (wall = 0: no monotonic
		// reading, ext = seconds since year 1, loc = nil: UTC); harnesses must not observe instants
		"time.Now": func(e *Engine, fn *ssa.Function, args []Val) Val {
			t := zero(fn.Signature.Results().At(0).Type()).(Agg)
			e.clock++
			t.F[1] = Int{W: 64, S: true, C: uint64(63_800_000_000 + 10*int64(e.clock))}
			return t
		},
		"github.com/fxamacker/cbor/v2.Marshal":   stubCborMarshal,
		"github.com/fxamacker/cbor/v2.Unmarshal": stubCborUnmarshal,
		"encoding/json.Marshal":                  stubBoxMarshal,
		"encoding/json.Unmarshal":                stubBoxUnmarshal,
		"internal/bytealg.CountString": stubCount,
		"internal/bytealg.Count":       stubCount,
		"internal/bytealg.IndexString": stubIndex,
		"internal/bytealg.Index":       stubIndex,
		"strings.Index":                stubIndex,
		"bytes.Index":                  stubIndex,
		"internal/bytealg.LastIndexByteString": stubLastIndexByte,
		"internal/bytealg.LastIndexByte":       stubLastIndexByte,
		"strings.LastIndexByte":                stubLastIndexByte,
		"(github.com/ipfs/go-cid.Cid).String": stubCidString,
		"github.com/ipfs/go-cid.Decode":       stubCidDecode,
		"github.com/sourcenetwork/defradb/internal/core/block.marshalNode": stubMarshalNode,
		"(*sync/atomic.Uint64).Add":   stubAtomicAdd,
		"(*sync/atomic.Uint32).Add":   stubAtomicAdd,
		"(*sync/atomic.Int64).Add":    stubAtomicAdd,
		"(*sync/atomic.Int32).Add":    stubAtomicAdd,
		"(*sync/atomic.Uint64).Load":  stubAtomicLoad,
		"(*sync/atomic.Uint32).Load":  stubAtomicLoad,
		"(*sync/atomic.Int64).Load":   stubAtomicLoad,
		"(*sync/atomic.Int32).Load":   stubAtomicLoad,
		"(*sync/atomic.Bool).Load":    stubAtomicLoad,
		"(*sync/atomic.Uint64).Store": stubAtomicStore,
		"(*sync/atomic.Uint32).Store": stubAtomicStore,
		"(*sync/atomic.Int64).Store":  stubAtomicStore,
		"(*sync/atomic.Int32).Store":  stubAtomicStore,
		"sort.Slice":       stubSortSlice,
		"sort.SliceStable": stubSortSlice,
		"reflect.DeepEqual": func(e *Engine, fn *ssa.Function, args []Val) Val {
			return e.deepEqual(args[0], args[1], 0)
		},
		"time.Sleep": func(e *Engine, fn *ssa.Function, args []Val) Val { e.freeYield("Sleep"); return nil },
		// reflect.ValueOf / Kind / Len as the planner's count node uses them (the Value carries the boxed operand)
		"reflect.ValueOf": func(e *Engine, fn *ssa.Function, args []Val) Val {
			return Agg{F: []Val{args[0], Ptr{}, Int{W: 64}}}
		},
		"(reflect.Value).Kind": func(e *Engine, fn *ssa.Function, args []Val) Val {
			iv, ok := args[0].(Agg).F[0].(Iface)
			if !ok {
				unsup("reflect.Value not produced by reflect.ValueOf")
			}
			k := 0
			if iv.T != nil {
				switch u := iv.T.Underlying().(type) {
				case *types.Slice:
					k = 23
				case *types.Array:
					k = 17
				case *types.Map:
					k = 21
				case *types.Chan:
					k = 18
				case *types.Struct:
					k = 25
				case *types.Pointer:
					k = 22
				case *types.Interface:
					k = 20
				case *types.Signature:
					k = 19
				case *types.Basic:
					switch u.Kind() {
					case types.Bool:
						k = 1
					case types.Int:
						k = 2
					case types.Int8:
						k = 3
					case types.Int16:
						k = 4
					case types.Int32:
						k = 5
					case types.Int64:
						k = 6
					case types.Uint:
						k = 7
					case types.Uint8:
						k = 8
					case types.Uint16:
						k = 9
					case types.Uint32:
						k = 10
					case types.Uint64:
						k = 11
					case types.Uintptr:
						k = 12
					case types.Float32:
						k = 13
					case types.Float64:
						k = 14
					case types.String:
						k = 24
					default:
						unsup("reflect.Kind of %s", iv.T)
					}
				default:
					unsup("reflect.Kind of %s", iv.T)
				}
			}
			return Int{W: 64, C: uint64(k)}
		},
		"(reflect.Value).Len": func(e *Engine, fn *ssa.Function, args []Val) Val {
			iv, ok := args[0].(Agg).F[0].(Iface)
			if !ok {
				unsup("reflect.Value not produced by reflect.ValueOf")
			}
			switch x := iv.V.(type) {
			case Slice:
				return Int{W: 64, S: true, C: uint64(x.Len)}
			case Str:
				return Int{W: 64, S: true, C: uint64(len(x.B))}
			case Map:
				n := 0
				if x.M != nil {
					for i := range x.M.keys {
						if !x.M.dead[i] {
							n++
						}
					}
				}
				return Int{W: 64, S: true, C: uint64(n)}
			}
			unsup("reflect.Value.Len of %T", iv.V)
			return nil
		},
		// fastjson's unsafe views between []byte and string: copies (the parser does not write through them)
		"github.com/valyala/fastjson.b2s": func(e *Engine, fn *ssa.Function, args []Val) Val {
			return Str{B: append([]Val{}, e.bytesOf(args[0])...)}
		},
		"github.com/valyala/fastjson.s2b": func(e *Engine, fn *ssa.Function, args []Val) Val {
			b := append([]Val{}, e.bytesOf(args[0])...)
			return Slice{O: e.newObj(Agg{F: b}), Len: len(b), Cap: len(b)}
		},
		// sync.Map as an ordinary map kept as ghost state of the object (keys by canonical form; thread-safe by contract:
		// its operations are synchronisation points and are not watched by the race detector)
		"(*sync.Map).Load": func(e *Engine, fn *ssa.Function, args []Val) Val {
			m := e.syncMapOf(args[0].(Ptr))
			e.acquire(e.ghostKey(args[0].(Ptr)) + ":syncmap")
			if i, ok := m.idx[e.canonKey(args[1])]; ok {
				return Tuple{copyVal(m.vals[i]), Bool{C: true}}
			}
			return Tuple{Iface{}, Bool{}}
		},
		"(*sync.Map).Store": func(e *Engine, fn *ssa.Function, args []Val) Val {
			m := e.syncMapOf(args[0].(Ptr))
			e.noRace++
			e.mapSet(m, args[1], args[2])
			e.noRace--
			e.release(e.ghostKey(args[0].(Ptr)) + ":syncmap")
			return nil
		},
		"(*sync.Map).LoadOrStore": func(e *Engine, fn *ssa.Function, args []Val) Val {
			m := e.syncMapOf(args[0].(Ptr))
			e.acquire(e.ghostKey(args[0].(Ptr)) + ":syncmap")
			if i, ok := m.idx[e.canonKey(args[1])]; ok {
				return Tuple{copyVal(m.vals[i]), Bool{C: true}}
			}
			e.noRace++
			e.mapSet(m, args[1], args[2])
			e.noRace--
			e.release(e.ghostKey(args[0].(Ptr)) + ":syncmap")
			return Tuple{args[2], Bool{}}
		},
		"(*sync.Map).Delete": func(e *Engine, fn *ssa.Function, args []Val) Val {
			m := e.syncMapOf(args[0].(Ptr))
			e.noRace++
			e.mapDelete(m, args[1])
			e.noRace--
			e.release(e.ghostKey(args[0].(Ptr)) + ":syncmap")
			return nil
		},
		"runtime.Gosched": func(e *Engine, fn *ssa.Function, args []Val) Val { e.freeYield("Gosched"); return nil },
		"runtime.KeepAlive": nop,
	}
	for k, f := range bigStubs() {
		stubTable[k] = f
	}
}

func stubErrJoin(e *Engine, fn *ssa.Function, args []Val) Val {
	var ms []Val
	for _, c := range e.cells(args[0].(Slice)) {
		if ci := c.(Iface); ci.T != nil {
			ms = append(ms, ci)
		}
	}
	if len(ms) == 0 {
		return Iface{}
	}
	return e.opaqueErr("join", ms...)
}

func stubCtxBackground(e *Engine, fn *ssa.Function, args []Val) Val {
	return Iface{T: e.ctxT, V: e.newOpaque("ctx")}
}

// ctxMethod implements context.Context methods on the modelled context chain
func (e *Engine) ctxMethod(op *Opaque, name string, args []Val) Val {
	switch name {
	case "Value":
		for c := op; c != nil; {
			if len(c.Args) == 0 {
				return Iface{}
			}
			if c.Args[1] != nil {
				if e.branch(e.ifaceEq(c.Args[1].(Iface), args[0].(Iface))) {
					return c.Args[2]
				}
			}
			parent := c.Args[0].(Iface)
			if parent.T == nil {
				return Iface{}
			}
			po, ok := parent.V.(*Opaque)
			if !ok || parent.T != e.ctxT {
				// a real Go context implementation (e.g. harness-defined): delegate
				m := e.lookupMethodByName(parent.T, "Value")
				if m == nil {
					return Iface{}
				}
				return e.call(m, []Val{parent.V, args[0]}, nil)
			}
			c = po
		}
		return Iface{}
	case "Done":
		return Chan{}
	case "Err":
		return Iface{}
	case "Deadline":
		return Tuple{zero(e.timeT), Bool{}}
	}
	unsup("context method %s", name)
	return nil
}

func (e *Engine) isErrorType(t types.Type) bool {
	if t == e.opaqueT {
		return true
	}
	return types.Implements(t, e.errorIface)
}

func stubFloatBits(e *Engine, fn *ssa.Function, args []Val) Val {
	f := args[0].(Flt)
	if !f.sym() {
		return Int{W: f.W, C: f.C}
	}
	if b, ok := f.bitsTerm(); ok {
		return Int{W: f.W, T: b}
	}
	// fresh bits constrained to denote f (NaN payload unconstrained, as on hardware it is unspecified here)
	b := e.freshBV("fbits", f.W)
	e.assertTerm("(= " + fpOfBits(b, f.W) + " " + f.T + ")")
	return Int{W: f.W, T: b}
}

func stubFloatFromBits(e *Engine, fn *ssa.Function, args []Val) Val {
	i := args[0].(Int)
	if !i.sym() {
		return Flt{W: i.W, C: i.C}
	}
	return Flt{W: i.W, T: fpOfBits(i.T, i.W)}
}

func (e *Engine) ghostKey(p Ptr) string {
	if p.O == nil {
		e.rtPanic("invalid memory address or nil pointer dereference (mutex)")
	}
	return fmt.Sprintf("mu%d%v", p.O.id, p.P)
}

func stubLock(e *Engine, fn *ssa.Function, args []Val) Val {
	k := e.ghostKey(args[0].(Ptr))
	if e.locks == nil {
		e.locks = map[string]int{}
	}
	if fn.Name() != "TryLock" {
		e.schedPoint("Lock")
	}
	if e.locks[k] != 0 {
		if fn.Name() == "TryLock" {
			return Bool{}
		}
		if !e.mt() {
			panic(blockedPath{"deadlock: Lock on a mutex that is already held"})
		}
		e.waitFor(func() bool { return e.locks[k] == 0 }, "Lock of a held mutex")
	}
	e.locks[k] = -1
	e.acquire(k)
	if fn.Name() == "TryLock" {
		return Bool{C: true}
	}
	return nil
}
func stubUnlock(e *Engine, fn *ssa.Function, args []Val) Val {
	k := e.ghostKey(args[0].(Ptr))
	if e.locks == nil || e.locks[k] != -1 {
		panic(goPanic{msg: "fatal error: sync: unlock of unlocked mutex"})
	}
	e.release(k)
	e.locks[k] = 0
	e.schedPoint("Unlock")
	return nil
}
func stubRLock(e *Engine, fn *ssa.Function, args []Val) Val {
	k := e.ghostKey(args[0].(Ptr))
	if e.locks == nil {
		e.locks = map[string]int{}
	}
	e.schedPoint("RLock")
	if e.locks[k] < 0 {
		if !e.mt() {
			panic(blockedPath{"deadlock: RLock on a write-locked mutex"})
		}
		e.waitFor(func() bool { return e.locks[k] >= 0 }, "RLock of a write-locked mutex")
	}
	e.locks[k]++
	e.acquire(k)
	return nil
}
func stubRUnlock(e *Engine, fn *ssa.Function, args []Val) Val {
	k := e.ghostKey(args[0].(Ptr))
	if e.locks == nil || e.locks[k] <= 0 {
		panic(goPanic{msg: "fatal error: sync: RUnlock of unlocked RWMutex"})
	}
	e.release(k + ":r")
	e.locks[k]--
	e.schedPoint("RUnlock")
	return nil
}

func (e *Engine) sprintVal(v Val) (string, bool) {
	switch x := v.(type) {
	case Iface:
		if x.T == nil {
			return "<nil>", true
		}
		if op, ok := x.V.(*Opaque); ok {
			return e.errMessage(op), true
		}
		if b, ok := x.T.Underlying().(*types.Basic); ok {
			switch xv := x.V.(type) {
			case Int:
				if xv.sym() {
					return "", false
				}
				if b.Info()&types.IsUnsigned == 0 {
					return strconv.FormatInt(sext(xv.C, xv.W), 10), true
				}
				return strconv.FormatUint(xv.C&mask(xv.W), 10), true
			case Str:
				cs, ok := xv.concrete()
				return cs, ok
			case Bool:
				if xv.sym() {
					return "", false
				}
				return strconv.FormatBool(xv.C), true
			}
		}
		return "", false
	}
	return "", false
}

func stubSprint(e *Engine, fn *ssa.Function, args []Val) Val {
	var sb strings.Builder
	for _, c := range e.cells(args[0].(Slice)) {
		s, ok := e.sprintVal(c)
		if !ok {
			unsup("fmt.Sprint of symbolic or composite value")
		}
		sb.WriteString(s)
	}
	return mkStr(sb.String())
}

func stubSprintf(e *Engine, fn *ssa.Function, args []Val) Val {
	f := mustStr(args[0], "Sprintf format")
	cells := e.cells(args[1].(Slice))
	var sb strings.Builder
	ai := 0
	for i := 0; i < len(f); i++ {
		if f[i] != '%' || i+1 >= len(f) {
			sb.WriteByte(f[i])
			continue
		}
		i++
		switch f[i] {
		case '%':
			sb.WriteByte('%')
		case 'd', 's', 'v':
			if ai >= len(cells) {
				unsup("Sprintf: missing arg")
			}
			s, ok := e.sprintVal(cells[ai])
			if !ok {
				unsup("fmt.Sprintf of symbolic or composite value")
			}
			ai++
			sb.WriteString(s)
		default:
			unsup("fmt.Sprintf verb %%%c", f[i])
		}
	}
	return mkStr(sb.String())
}

// stub resolves a call through the stub table and the pattern-based entries
func (e *Engine) stub(fn *ssa.Function, args []Val) (Val, bool) {
	full := fn.String()
	if o := fn.Origin(); o != nil {
		full = o.String()
	}
	// a redirect declared by the suite wins over the built-in stub of the same function
	if e.cfg != nil {
		if target, ok := e.cfg.Redirects[full]; ok {
			e.stubs[full+" => "+target]++
			h := e.root.Func(target)
			if h == nil {
				unsup("redirect target %s not found in harness package", target)
			}
			return e.call(h, args, nil), true
		}
	}
	if s, ok := stubTable[full]; ok {
		e.stubs[full]++
		return s(e, fn, args), true
	}
	pkg := ""
	if fn.Pkg != nil {
		pkg = fn.Pkg.Pkg.Path()
	}
	switch {
	case strings.HasPrefix(pkg, "github.com/sourcenetwork/corelog"), pkg == "log/slog", pkg == "log",
		strings.HasPrefix(pkg, "go.opentelemetry.io/"), strings.HasPrefix(pkg, "github.com/sourcenetwork/defradb/internal/telemetry"):
		e.stubs["<logging/tracing> "+pkg]++
		return e.logStub(fn, args), true
	case strings.HasPrefix(pkg, "github.com/go-errors/errors"):
		e.stubs[full]++
		return e.opaqueErr("goerror", mkStr("")), true
	}
	return nil, false
}

// logging/tracing calls have empty bodies; they return zero values (or opaque objects for handles)
func (e *Engine) logStub(fn *ssa.Function, args []Val) Val {
	return e.logStubSig(fn.Signature, args)
}

func (e *Engine) logStubSig(sig *types.Signature, args []Val) Val {
	rs := sig.Results()
	mk := func(t types.Type) Val {
		switch t.Underlying().(type) {
		case *types.Interface:
			// a handle (logger, span, tracer): opaque object whose methods are all no-ops
			return Iface{T: e.logT, V: e.newOpaque("loghandle")}
		}
		return zero(t)
	}
	switch rs.Len() {
	case 0:
		return nil
	case 1:
		return mk(rs.At(0).Type())
	}
	t := make(Tuple, rs.Len())
	for i := range t {
		// (ctx, span) pattern: pass the context through
		if i < len(args) && types.Identical(rs.At(i).Type(), e.ctxIfaceT) {
			for _, a := range args {
				if ai, ok := a.(Iface); ok && ai.T == e.ctxT {
					t[i] = ai
				}
			}
			if t[i] == nil {
				t[i] = zero(rs.At(i).Type())
			}
			continue
		}
		t[i] = mk(rs.At(i).Type())
	}
	return t
}

// deepEqual models reflect.DeepEqual on scalar / slice / struct / pointer shapes
func (e *Engine) deepEqual(a, b Val, depth int) Bool {
	if depth > 20 {
		unsup("reflect.DeepEqual: too deep")
	}
	switch x := a.(type) {
	case Iface:
		y, ok := b.(Iface)
		if !ok {
			unsup("reflect.DeepEqual: shape mismatch")
		}
		if x.T == nil || y.T == nil {
			return Bool{C: x.T == nil && y.T == nil}
		}
		if !types.Identical(x.T, y.T) {
			return Bool{}
		}
		return e.deepEqual(x.V, y.V, depth+1)
	case Int, Bool, Flt, Str, Cplx:
		return e.valEq(a, b)
	case Agg:
		y := b.(Agg)
		r := Bool{C: true}
		for i := range x.F {
			r = bAnd(r, e.deepEqual(x.F[i], y.F[i], depth+1))
		}
		return r
	case Slice:
		y := b.(Slice)
		if (x.O == nil) != (y.O == nil) || x.Len != y.Len {
			return Bool{}
		}
		r := Bool{C: true}
		xc, yc := e.cells(x), e.cells(y)
		for i := range xc {
			r = bAnd(r, e.deepEqual(xc[i], yc[i], depth+1))
		}
		return r
	case Ptr:
		y := b.(Ptr)
		if x.O == nil || y.O == nil {
			return Bool{C: x.O == nil && y.O == nil}
		}
		if x.O == y.O && pathEq(x.P, y.P) {
			return Bool{C: true}
		}
		return e.deepEqual(e.load(x), e.load(y), depth+1)
	case *Opaque:
		y, ok := b.(*Opaque)
		return Bool{C: ok && x == y}
	case Map:
		y := b.(Map)
		if x.M == nil || y.M == nil {
			return Bool{C: x.M == nil && y.M == nil}
		}
		if x.M == y.M {
			return Bool{C: true}
		}
		if len(x.M.idx) != len(y.M.idx) {
			return Bool{}
		}
		r := Bool{C: true}
		for k, i := range x.M.idx {
			j, ok := y.M.idx[k]
			if !ok {
				return Bool{}
			}
			r = bAnd(r, e.deepEqual(x.M.vals[i], y.M.vals[j], depth+1))
		}
		return r
	case nil:
		return Bool{C: b == nil}
	}
	unsup("reflect.DeepEqual on %T", a)
	return Bool{}
}

// ---- CBOR numeric codec model ----
// Marshal of int64 / float64 / float32 / nil produces a fixed-width (valid, non-shortest) CBOR item whose
// payload bytes are the big-endian bytes of the (possibly symbolic) number; Unmarshal inverts it.
// Assumed: the real fxamacker codec round-trips numbers.

func (e *Engine) beBytes(x Int, n int) []Val {
	out := make([]Val, n)
	for i := 0; i < n; i++ {
		sh := uint((n - 1 - i) * 8)
		if !x.sym() {
			out[i] = Int{W: 8, C: (x.C >> sh) & 0xff}
		} else {
			out[i] = Int{W: 8, T: fmt.Sprintf("((_ extract %d %d) %s)", sh+7, sh, x.T)}
		}
	}
	return out
}

func (e *Engine) fromBE(cells []Val, w int) Int {
	allc := true
	var c uint64
	parts := make([]string, len(cells))
	for i, b := range cells {
		bi := b.(Int)
		if bi.sym() {
			allc = false
		}
		c = c<<8 | (bi.C & 0xff)
		parts[i] = bi.term()
	}
	if allc {
		return Int{W: w, C: c}
	}
	return Int{W: w, T: e.nameBV("(concat "+strings.Join(parts, " ")+")", w)}
}

func stubCborMarshal(e *Engine, fn *ssa.Function, args []Val) Val {
	v := args[0].(Iface)
	mk := func(cells []Val) Val {
		a := Agg{F: cells}
		return Tuple{Slice{O: e.newObj(a), Len: len(cells), Cap: len(cells)}, Iface{}}
	}
	if v.T == nil {
		return mk([]Val{Int{W: 8, C: 0xf6}})
	}
	switch x := v.V.(type) {
	case Int:
		if x.W != 64 {
			unsup("cbor.Marshal of %d-bit integer", x.W)
		}
		// model encoding: one header byte + the 64 bits in two's complement (any injective encoding
		// serves: the bytes are only ever read back by the Unmarshal model)
		return mk(append([]Val{Int{W: 8, C: 0x1b}}, e.beBytes(x, 8)...))
	case Flt:
		bits := stubFloatBits(e, fn, []Val{x}).(Int)
		if x.W == 32 {
			return mk(append([]Val{Int{W: 8, C: 0xfa}}, e.beBytes(bits, 4)...))
		}
		return mk(append([]Val{Int{W: 8, C: 0xfb}}, e.beBytes(bits, 8)...))
	case Str:
		// short text strings as real CBOR encodes them: major type 3 with the length in the header byte
		if len(x.B) < 24 {
			return mk(append([]Val{Int{W: 8, C: 0x60 + uint64(len(x.B))}}, x.B...))
		}
		if len(x.B) < 256 {
			return mk(append([]Val{Int{W: 8, C: 0x78}, Int{W: 8, C: uint64(len(x.B))}}, x.B...))
		}
		unsup("cbor.Marshal of a string of %d bytes", len(x.B))
	case Bool:
		if x.sym() {
			return mk([]Val{Int{W: 8, T: "(ite " + x.T + " #xf5 #xf4)"}})
		}
		if x.C {
			return mk([]Val{Int{W: 8, C: 0xf5}})
		}
		return mk([]Val{Int{W: 8, C: 0xf4}})
	case Slice:
		// arrays of numbers: the array header of real CBOR followed by the element models
		if st, ok := v.T.Underlying().(*types.Slice); ok && x.Len < 24 {
			out := []Val{Int{W: 8, C: 0x80 + uint64(x.Len)}}
			for _, c := range e.cells(x) {
				r := stubCborMarshal(e, fn, []Val{Iface{T: st.Elem(), V: c}}).(Tuple)
				out = append(out, e.cells(r[0].(Slice))...)
			}
			return mk(out)
		}
	}
	if _, ok := v.T.Underlying().(*types.Struct); ok {
		return stubBoxMarshal(e, fn, args)
	}
	unsup("cbor.Marshal of %s", v.T)
	return nil
}

// ---- boxed codec ----
// Marshal of a struct value through a reflection-based codec (encoding/json, cbor) is modelled as a box:
// the bytes are a fixed tag followed by the number of a per-path table entry that keeps a deep copy of the
// value; Unmarshal into a pointer to the same type copies it back. The model is the identity on round
// trips (the real codecs may normalise: time zones, sub-second precision under cbor's default time mode);
// any other use of the bytes (other target type, foreign bytes) is refused as unsupported.
const boxTag = 0xB7

func (e *Engine) snapshot(v Val, seen map[*Obj]*Obj) Val {
	switch x := v.(type) {
	case Agg:
		n := Agg{F: make([]Val, len(x.F))}
		for i, f := range x.F {
			n.F[i] = e.snapshot(f, seen)
		}
		return n
	case Ptr:
		if x.O == nil {
			return x
		}
		return Ptr{O: e.snapshotObj(x.O, seen), P: x.P, SD: x.SD}
	case Slice:
		if x.O == nil {
			return x
		}
		return Slice{O: e.snapshotObj(x.O, seen), Base: x.Base, Off: x.Off, Len: x.Len, Cap: x.Cap}
	case Iface:
		return Iface{T: x.T, V: e.snapshot(x.V, seen)}
	case Tuple:
		n := make(Tuple, len(x))
		for i, f := range x {
			n[i] = e.snapshot(f, seen)
		}
		return n
	}
	return v
}

func (e *Engine) snapshotObj(o *Obj, seen map[*Obj]*Obj) *Obj {
	if n, ok := seen[o]; ok {
		return n
	}
	n := e.newObj(nil)
	seen[o] = n
	n.V = e.snapshot(o.V, seen)
	return n
}

func stubBoxMarshal(e *Engine, fn *ssa.Function, args []Val) Val {
	v := args[0].(Iface)
	if v.T == nil {
		unsup("%s of nil", fn)
	}
	t := v.T
	val := v.V
	if pt, ok := t.Underlying().(*types.Pointer); ok {
		p := val.(Ptr)
		if p.O == nil {
			unsup("%s of nil pointer", fn)
		}
		t, val = pt.Elem(), e.load(p)
	}
	if _, ok := t.Underlying().(*types.Struct); !ok {
		unsup("%s of %s (only struct values are boxed)", fn, t)
	}
	e.boxes = append(e.boxes, boxed{t: t, v: e.snapshot(val, map[*Obj]*Obj{})})
	id := len(e.boxes) - 1
	cells := []Val{Int{W: 8, C: boxTag}, Int{W: 8, C: uint64(id >> 8)}, Int{W: 8, C: uint64(id & 0xff)}}
	return Tuple{Slice{O: e.newObj(Agg{F: cells}), Len: len(cells), Cap: len(cells)}, Iface{}}
}

func stubBoxUnmarshal(e *Engine, fn *ssa.Function, args []Val) Val {
	cells := e.bytesOf(args[0])
	dst := args[1].(Iface)
	p, ok := dst.V.(Ptr)
	if !ok || dst.T == nil || p.O == nil {
		unsup("%s into %v", fn, dst.T)
	}
	et := dst.T.(*types.Pointer).Elem()
	if len(cells) != 3 {
		unsup("%s of bytes that are not a box (%d bytes)", fn, len(cells))
	}
	var c [3]uint64
	for i := range c {
		b, ok := cells[i].(Int)
		if !ok || b.sym() {
			unsup("%s of symbolic bytes", fn)
		}
		c[i] = b.C
	}
	id := int(c[1]<<8 | c[2])
	if c[0] != boxTag || id >= len(e.boxes) {
		unsup("%s of bytes that are not a box", fn)
	}
	b := e.boxes[id]
	if !types.Identical(b.t, et) {
		unsup("%s: box holds %s, target is %s", fn, b.t, et)
	}
	e.store(p, e.snapshot(b.v, map[*Obj]*Obj{}))
	return Iface{}
}

func stubCborUnmarshal(e *Engine, fn *ssa.Function, args []Val) Val {
	cells := e.bytesOf(args[0])
	dst := args[1].(Iface)
	p, ok := dst.V.(Ptr)
	if !ok || dst.T == nil {
		unsup("cbor.Unmarshal into %v", dst.T)
	}
	et := dst.T.(*types.Pointer).Elem()
	fail := func() Val { return e.opaqueErr("stderror", mkStr("cbor: cannot unmarshal")) }
	if len(cells) == 0 {
		return fail()
	}
	hdr := cells[0].(Int)
	is := func(c uint64) bool { return e.branch(intEq(hdr, Int{W: 8, C: c})) }
	bt, _ := et.Underlying().(*types.Basic)
	if _, ok := et.Underlying().(*types.Struct); ok {
		return stubBoxUnmarshal(e, fn, args)
	}
	if it, ok := et.Underlying().(*types.Interface); ok && it.NumMethods() == 0 {
		// into an empty interface: the kind is read off the header byte (which the models above write concretely)
		if hdr.sym() {
			// only a symbolic boolean has a symbolic header
			e.store(p, Iface{T: types.Typ[types.Bool], V: Bool{T: "(= " + hdr.T + " #xf5)"}})
			return Iface{}
		}
		switch {
		case hdr.C == 0xf6:
			e.store(p, Iface{})
		case hdr.C == 0xf4 || hdr.C == 0xf5:
			e.store(p, Iface{T: types.Typ[types.Bool], V: Bool{C: hdr.C == 0xf5}})
		case hdr.C == 0x1b && len(cells) == 9:
			// (the real decoder yields uint64 for non-negative and int64 for negative integers; every consumer
			// reached so far converts either to int64 — core.NormalizeFieldValue)
			v := e.fromBE(cells[1:], 64)
			v.S = true
			e.store(p, Iface{T: types.Typ[types.Int64], V: v})
		case hdr.C <= 0x17 && len(cells) == 1:
			e.store(p, Iface{T: types.Typ[types.Int64], V: Int{W: 64, S: true, C: hdr.C}})
		case hdr.C == 0xfb && len(cells) == 9:
			e.store(p, Iface{T: types.Typ[types.Float64], V: stubFloatFromBits(e, fn, []Val{e.fromBE(cells[1:], 64)})})
		case hdr.C >= 0x60 && hdr.C < 0x78 && len(cells) == 1+int(hdr.C-0x60):
			e.store(p, Iface{T: types.Typ[types.String], V: Str{B: append([]Val{}, cells[1:]...)}})
		case hdr.C >= 0x80 && hdr.C < 0x98:
			n := int(hdr.C - 0x80)
			rest := cells[1:]
			anyT := types.NewInterfaceType(nil, nil)
			var elems []Val
			for i := 0; i < n; i++ {
				if len(rest) == 0 {
					return fail()
				}
				h := rest[0].(Int)
				if h.sym() {
					return fail()
				}
				sz := 1
				if h.C == 0x1b || h.C == 0xfb {
					sz = 9
				} else if h.C >= 0x60 && h.C < 0x78 {
					sz = 1 + int(h.C-0x60)
				}
				if len(rest) < sz {
					return fail()
				}
				cell := e.newObj(Iface{})
				sub := Slice{O: e.newObj(Agg{F: append([]Val{}, rest[:sz]...)}), Len: sz, Cap: sz}
				r := stubCborUnmarshal(e, fn, []Val{sub, Iface{T: types.NewPointer(anyT), V: Ptr{O: cell}}})
				if iv, ok := r.(Iface); ok && iv.T != nil {
					return r
				}
				elems = append(elems, cell.V)
				rest = rest[sz:]
			}
			if len(rest) != 0 {
				return fail()
			}
			e.store(p, Iface{T: types.NewSlice(anyT), V: Slice{O: e.newObj(Agg{F: elems}), Len: n, Cap: n}})
		case hdr.C == 0x78 && len(cells) >= 2 && !cells[1].(Int).sym() && len(cells) == 2+int(cells[1].(Int).C):
			e.store(p, Iface{T: types.Typ[types.String], V: Str{B: append([]Val{}, cells[2:]...)}})
		default:
			return fail()
		}
		return Iface{}
	}
	if bt == nil {
		unsup("cbor.Unmarshal into %s", et)
	}
	switch {
	case bt.Info()&types.IsInteger != 0 && width(bt) == 64:
		if len(cells) == 9 && is(0x1b) {
			v := e.fromBE(cells[1:], 64)
			v.S = isSigned(et)
			e.store(p, v)
			return Iface{}
		}
		// shortest-form small unsigned integers 0..23 (what harnesses may store as literals)
		if len(cells) == 1 && !hdr.sym() && hdr.C <= 0x17 {
			e.store(p, Int{W: 64, S: isSigned(et), C: hdr.C})
			return Iface{}
		}
		return fail()
	case bt.Kind() == types.Float64:
		if len(cells) == 9 && is(0xfb) {
			e.store(p, stubFloatFromBits(e, fn, []Val{e.fromBE(cells[1:], 64)}))
			return Iface{}
		}
		return fail()
	case bt.Kind() == types.Float32:
		if len(cells) == 5 && is(0xfa) {
			e.store(p, stubFloatFromBits(e, fn, []Val{e.fromBE(cells[1:], 32)}))
			return Iface{}
		}
		return fail()
	}
	unsup("cbor.Unmarshal into %s", et)
	return nil
}

// sort.Slice / sort.SliceStable: insertion sort through the less closure (this is exactly what the real
// pdqsort does for n <= 12; larger inputs are refused)
func stubSortSlice(e *Engine, fn *ssa.Function, args []Val) Val {
	x := args[0].(Iface)
	sl, ok := x.V.(Slice)
	if !ok {
		unsup("sort.Slice on %T", x.V)
	}
	if sl.Len > 12 && fn.Name() == "Slice" {
		unsup("sort.Slice over more than 12 elements")
	}
	cells := e.cells(sl)
	less := args[1]
	for i := 1; i < len(cells); i++ {
		for j := i; j > 0; j-- {
			r := e.callVal(less, []Val{i64(int64(j)), i64(int64(j - 1))}).(Bool)
			if !e.branch(r) {
				break
			}
			cells[j], cells[j-1] = cells[j-1], cells[j]
		}
	}
	return nil
}

func stubCount(e *Engine, fn *ssa.Function, args []Val) Val {
	n := 0
	c := args[1].(Int)
	for _, b := range e.bytesOf(args[0]) {
		if e.branch(intEq(b.(Int), c)) {
			n++
		}
	}
	return i64(int64(n))
}

func stubIndex(e *Engine, fn *ssa.Function, args []Val) Val {
	h, nd := e.bytesOf(args[0]), e.bytesOf(args[1])
	for i := 0; i+len(nd) <= len(h); i++ {
		_, eq := lexCmp(h[i:i+len(nd)], nd)
		if e.branch(eq) {
			return i64(int64(i))
		}
	}
	return i64(-1)
}

func stubLastIndexByte(e *Engine, fn *ssa.Function, args []Val) Val {
	cells := e.bytesOf(args[0])
	c := args[1].(Int)
	for i := len(cells) - 1; i >= 0; i-- {
		if e.branch(intEq(cells[i].(Int), c)) {
			return i64(int64(i))
		}
	}
	return i64(-1)
}

// ---- go-cid: textual form of CIDv1 (multibase base32 lower, no padding) computed natively ----
var b32lower = base32.NewEncoding("abcdefghijklmnopqrstuvwxyz234567").WithPadding(base32.NoPadding)

func stubCidString(e *Engine, fn *ssa.Function, args []Val) Val {
	a, ok := args[0].(Agg)
	if ok && len(a.F) == 1 {
		if str, ok := a.F[0].(Str); ok {
			if cs, ok := str.concrete(); ok && len(cs) > 2 && cs[0] == 1 {
				return mkStr("b" + b32lower.EncodeToString([]byte(cs)))
			}
		}
	}
	return e.callBody(fn, args, nil)
}

func stubCidDecode(e *Engine, fn *ssa.Function, args []Val) Val {
	if str, ok := args[0].(Str); ok {
		if cs, ok := str.concrete(); ok && len(cs) > 10 && cs[0] == 'b' {
			raw, err := b32lower.DecodeString(cs[1:])
			// only the shape produced by the String model: CIDv1, one-byte codec, sha2-256 multihash
			if err == nil && len(raw) == 36 && raw[0] == 1 && raw[1] < 0x80 && raw[2] == 0x12 && raw[3] == 0x20 {
				return Tuple{Agg{F: []Val{mkStr(string(raw))}}, Iface{}}
			}
		}
	}
	return e.callBody(fn, args, nil)
}

// ---- injective codec model ----
// marshalNode (dag-cbor through bindnode reflection) is modelled as a canonical, injective serialisation of
// the Go value: type-tagged and length-prefixed, so two values have equal bytes iff they are structurally
// equal. Assumed: the real codec is injective on Blocks / Signatures / Encryption blocks.

func (e *Engine) canonSerialize(v Val, out *[]Val, depth int) {
	if depth > 40 {
		unsup("canonical serialisation: too deep")
	}
	tag := func(b byte) { *out = append(*out, Int{W: 8, C: uint64(b)}) }
	num := func(n int) {
		for i := 3; i >= 0; i-- {
			*out = append(*out, Int{W: 8, C: uint64(n>>(8*uint(i))) & 0xff})
		}
	}
	switch x := v.(type) {
	case nil:
		tag('0')
	case Int:
		tag('I')
		tag(byte(x.W))
		*out = append(*out, e.beBytes(x, x.W/8)...)
	case Bool:
		tag('B')
		if x.sym() {
			*out = append(*out, Int{W: 8, T: "(ite " + x.T + " #x01 #x00)"})
		} else if x.C {
			tag(1)
		} else {
			tag(0)
		}
	case Flt:
		tag('F')
		bits := stubFloatBits(e, nil, []Val{x}).(Int)
		*out = append(*out, e.beBytes(bits, x.W/8)...)
	case Str:
		tag('S')
		num(len(x.B))
		*out = append(*out, x.B...)
	case Agg:
		tag('A')
		num(len(x.F))
		for _, f := range x.F {
			e.canonSerialize(f, out, depth+1)
		}
	case Ptr:
		if x.O == nil {
			tag('n')
			return
		}
		tag('P')
		e.canonSerialize(e.load(x), out, depth+1)
	case Slice:
		if x.O == nil {
			tag('z')
			return
		}
		tag('L')
		num(x.Len)
		for _, c := range e.cells(x) {
			e.canonSerialize(c, out, depth+1)
		}
	case Iface:
		if x.T == nil {
			tag('i')
			return
		}
		tag('T')
		ts := x.T.String()
		num(len(ts))
		for i := 0; i < len(ts); i++ {
			tag(ts[i])
		}
		e.canonSerialize(x.V, out, depth+1)
	default:
		unsup("canonical serialisation of %T", v)
	}
}

func stubMarshalNode(e *Engine, fn *ssa.Function, args []Val) Val {
	var out []Val
	e.canonSerialize(args[0], &out, 0)
	a := Agg{F: out}
	return Tuple{Slice{O: e.newObj(a), Len: len(out), Cap: len(out)}, Iface{}}
}

// sync/atomic typed values: struct{ _ noCopy; (_ align64;) v T } — single-threaded execution, plain access
func (e *Engine) atomicField(p Ptr) Ptr {
	a := e.loadRaw(p).(Agg)
	return Ptr{O: p.O, P: extPath(p.P, len(a.F)-1)}
}

func (e *Engine) syncMapOf(p Ptr) *MapObj {
	k := e.ghostKey(p)
	if e.syncMaps == nil {
		e.syncMaps = map[string]*MapObj{}
	}
	m, ok := e.syncMaps[k]
	if !ok {
		e.objID++
		m = &MapObj{idx: map[string]int{}, dead: map[int]bool{}, id: e.objID}
		e.syncMaps[k] = m
	}
	return m
}

func (e *Engine) atomicKey(p Ptr) string { return fmt.Sprintf("at%d%v", p.O.id, p.P) }

func stubAtomicAdd(e *Engine, fn *ssa.Function, args []Val) Val {
	fp := e.atomicField(args[0].(Ptr))
	e.noRace++
	defer func() { e.noRace-- }()
	e.acquire(e.atomicKey(fp))
	defer e.release(e.atomicKey(fp))
	cur := e.load(fp).(Int)
	r := e.intBinop(token.ADD, cur, args[1].(Int), cur.S).(Int)
	e.store(fp, r)
	return r
}

func stubAtomicLoad(e *Engine, fn *ssa.Function, args []Val) Val {
	e.noRace++
	defer func() { e.noRace-- }()
	e.acquire(e.atomicKey(e.atomicField(args[0].(Ptr))))
	v := e.load(e.atomicField(args[0].(Ptr)))
	if fn.Signature.Results().At(0).Type().Underlying().(*types.Basic).Kind() == types.Bool {
		if i, ok := v.(Int); ok {
			return e.intBinop(token.NEQ, i, Int{W: i.W}, false)
		}
	}
	return v
}

func stubAtomicStore(e *Engine, fn *ssa.Function, args []Val) Val {
	e.noRace++
	defer func() { e.noRace-- }()
	e.store(e.atomicField(args[0].(Ptr)), args[1])
	e.release(e.atomicKey(e.atomicField(args[0].(Ptr))))
	return nil
}

// sync.WaitGroup: a counter as ghost state once threads exist (single-threaded paths keep the no-op model)
func stubWGAdd(e *Engine, fn *ssa.Function, args []Val) Val {
	if e.wg == nil {
		e.wg = map[string]int{}
	}
	k := "wg" + e.ghostKey(args[0].(Ptr))
	d := -1
	if fn.Name() == "Add" {
		d = int(sext(args[1].(Int).C, 64))
	}
	e.wg[k] += d
	if d < 0 {
		e.release(k)
	}
	if e.wg[k] < 0 && e.mtEver {
		panic(goPanic{msg: "sync: negative WaitGroup counter"})
	}
	return nil
}
func stubWGWait(e *Engine, fn *ssa.Function, args []Val) Val {
	if e.wg == nil || !e.mtEver {
		return nil // single-threaded path: the goroutines the code would wait for do not exist
	}
	k := "wg" + e.ghostKey(args[0].(Ptr))
	e.waitFor(func() bool { return e.wg[k] <= 0 }, "WaitGroup.Wait")
	e.acquire(k)
	return nil
}
