// ops.go: operators, conversions, built-ins.
package main

import (
	"fmt"
	"go/token"
	"go/types"
	"math"

	"golang.org/x/tools/go/ssa"
)

func f64bits(f float64) uint64 { return math.Float64bits(f) }
func f32bits(f float32) uint32 { return math.Float32bits(f) }

func (f Flt) f64() float64 {
	if f.W == 32 {
		return float64(math.Float32frombits(uint32(f.C)))
	}
	return math.Float64frombits(f.C)
}
func mkFlt(w int, v float64) Flt {
	if w == 32 {
		return Flt{W: 32, C: uint64(math.Float32bits(float32(v)))}
	}
	return Flt{W: 64, C: math.Float64bits(v)}
}

func (e *Engine) valEq(x, y Val) Bool {
	switch xv := x.(type) {
	case nil:
		return Bool{C: y == nil}
	case Int:
		return intEq(xv, y.(Int))
	case Bool:
		return bEq(xv, y.(Bool))
	case Flt:
		return e.fltCmp(token.EQL, xv, y.(Flt))
	case Str:
		ys := y.(Str)
		if len(xv.B) != len(ys.B) {
			return Bool{}
		}
		_, eq := lexCmp(xv.B, ys.B)
		return eq
	case Agg:
		ya := y.(Agg)
		r := Bool{C: true}
		for i := range xv.F {
			r = bAnd(r, e.valEq(xv.F[i], ya.F[i]))
			if !r.sym() && !r.C {
				return r
			}
		}
		return r
	case Iface:
		return e.ifaceEq(xv, y.(Iface))
	case Ptr:
		yv := y.(Ptr)
		return Bool{C: xv.O == yv.O && pathEq(xv.P, yv.P) && xv.SD == yv.SD}
	case Slice:
		return Bool{C: (xv.O == nil) == (y.(Slice).O == nil)}
	case Map:
		return Bool{C: xv.M == y.(Map).M}
	case Chan:
		return Bool{C: xv.C == y.(Chan).C}
	case Closure:
		yc := y.(Closure)
		return Bool{C: xv.Fn == nil && yc.Fn == nil && xv.Native == nil && yc.Native == nil}
	case *Opaque:
		yo, ok := y.(*Opaque)
		return Bool{C: ok && xv == yo}
	case Cplx:
		yc := y.(Cplx)
		return bAnd(e.fltCmp(token.EQL, xv.Re, yc.Re), e.fltCmp(token.EQL, xv.Im, yc.Im))
	}
	unsup("equality on %T", x)
	return Bool{}
}

func (e *Engine) ifaceEq(a, b Iface) Bool {
	if a.T == nil || b.T == nil {
		return Bool{C: a.T == nil && b.T == nil}
	}
	if !types.Identical(a.T, b.T) {
		return Bool{}
	}
	if !types.Comparable(a.T) {
		e.rtPanic("comparing uncomparable type " + a.T.String())
	}
	return e.valEq(a.V, b.V)
}

func (e *Engine) binop(op token.Token, x, y Val, xt types.Type) Val {
	switch xv := x.(type) {
	case Int:
		return e.intBinop(op, xv, y.(Int), isSigned(xt))
	case Flt:
		yf := y.(Flt)
		switch op {
		case token.EQL, token.NEQ, token.LSS, token.LEQ, token.GTR, token.GEQ:
			return e.fltCmp(op, xv, yf)
		}
		return e.fltArith(op, xv, yf)
	case Str:
		ys := y.(Str)
		if op == token.ADD {
			nb := make([]Val, 0, len(xv.B)+len(ys.B))
			return Str{B: append(append(nb, xv.B...), ys.B...)}
		}
		l, eq := lexCmp(xv.B, ys.B)
		switch op {
		case token.EQL:
			return eq
		case token.NEQ:
			return bNot(eq)
		case token.LSS:
			return l
		case token.LEQ:
			return bOr(l, eq)
		case token.GTR:
			return bNot(bOr(l, eq))
		case token.GEQ:
			return bNot(l)
		}
	case Bool:
		yb := y.(Bool)
		switch op {
		case token.EQL:
			return bEq(xv, yb)
		case token.NEQ:
			return bNot(bEq(xv, yb))
		case token.AND, token.LAND:
			return bAnd(xv, yb)
		case token.OR, token.LOR:
			return bOr(xv, yb)
		}
	}
	switch op {
	case token.EQL:
		return e.valEq(x, y)
	case token.NEQ:
		return bNot(e.valEq(x, y))
	}
	unsup("binop %s on %T", op, x)
	return nil
}

func (e *Engine) intBinop(op token.Token, a, b Int, signed bool) Val {
	a.S = signed
	if op == token.SHL || op == token.SHR {
		return e.shift(op, a, b, signed)
	}
	if !a.sym() && !b.sym() {
		return e.concBin(op, a, b, signed)
	}
	// cheap algebraic short-cuts
	switch op {
	case token.AND:
		if !b.sym() && b.C&mask(a.W) == mask(a.W) {
			return a
		}
		if !b.sym() && b.C&mask(a.W) == 0 {
			return Int{W: a.W, S: signed}
		}
	case token.ADD, token.OR, token.XOR, token.SUB:
		if !b.sym() && b.C&mask(a.W) == 0 {
			return a
		}
	}
	at, bt := a.term(), b.term()
	bv := func(f string) Val {
		return Int{W: a.W, S: signed, T: e.nameBV("("+f+" "+at+" "+bt+")", a.W)}
	}
	cmp := func(s, u string) Val {
		f := u
		if signed {
			f = s
		}
		return Bool{T: "(" + f + " " + at + " " + bt + ")"}
	}
	switch op {
	case token.ADD:
		return bv("bvadd")
	case token.SUB:
		return bv("bvsub")
	case token.MUL:
		return bv("bvmul")
	case token.AND:
		return bv("bvand")
	case token.OR:
		return bv("bvor")
	case token.XOR:
		return bv("bvxor")
	case token.AND_NOT:
		return Int{W: a.W, S: signed, T: e.nameBV("(bvand "+at+" (bvnot "+bt+"))", a.W)}
	case token.QUO, token.REM:
		if e.branch(intEq(b, Int{W: b.W})) {
			e.rtPanic("integer divide by zero")
		}
		switch {
		case op == token.QUO && signed:
			return bv("bvsdiv")
		case op == token.QUO:
			return bv("bvudiv")
		case signed:
			return bv("bvsrem")
		}
		return bv("bvurem")
	case token.EQL:
		return intEq(a, b)
	case token.NEQ:
		return bNot(intEq(a, b))
	case token.LSS:
		return cmp("bvslt", "bvult")
	case token.LEQ:
		return cmp("bvsle", "bvule")
	case token.GTR:
		return cmp("bvsgt", "bvugt")
	case token.GEQ:
		return cmp("bvsge", "bvuge")
	}
	unsup("int binop %s", op)
	return nil
}

func (e *Engine) shift(op token.Token, a, b Int, signed bool) Val {
	// Go: shift count is unsigned (or a non-negative signed: negative panics); count >= width gives 0 / sign fill
	if b.S {
		neg := e.intBinop(token.LSS, b, Int{W: b.W, S: true}, true).(Bool)
		if e.branch(neg) {
			e.rtPanic("negative shift amount")
		}
	}
	if !a.sym() && !b.sym() {
		m := mask(a.W)
		sh := b.C
		if op == token.SHL {
			if sh >= uint64(a.W) {
				return Int{W: a.W, S: signed}
			}
			return Int{W: a.W, S: signed, C: (a.C << sh) & m}
		}
		if signed {
			if sh > 63 {
				sh = 63
			}
			return Int{W: a.W, S: signed, C: uint64(sext(a.C, a.W)>>sh) & m}
		}
		if sh >= uint64(a.W) {
			return Int{W: a.W, S: signed}
		}
		return Int{W: a.W, S: signed, C: (a.C & m) >> sh}
	}
	// bring the count to the width of a (saturating)
	var ct string
	if !b.sym() {
		c := b.C
		if c > uint64(a.W) {
			c = uint64(a.W)
		}
		ct = bvLit(c, a.W)
	} else {
		switch {
		case b.W == a.W:
			ct = b.T
		case b.W < a.W:
			ct = fmt.Sprintf("((_ zero_extend %d) %s)", a.W-b.W, b.T)
		default:
			// saturate: if b >= a.W then a.W else low bits
			ct = fmt.Sprintf("(ite (bvuge %s %s) %s ((_ extract %d 0) %s))", b.T, bvLit(uint64(a.W), b.W), bvLit(uint64(a.W), a.W), a.W-1, b.T)
		}
	}
	at := a.term()
	var f string
	switch {
	case op == token.SHL:
		f = "bvshl"
	case signed:
		f = "bvashr"
	default:
		f = "bvlshr"
	}
	// SMT-LIB semantics of bvshl/bvlshr/bvashr with count >= width coincide with Go's
	return Int{W: a.W, S: signed, T: e.nameBV("("+f+" "+at+" "+ct+")", a.W)}
}

func (e *Engine) concBin(op token.Token, a, b Int, signed bool) Val {
	m := mask(a.W)
	r := func(c uint64) Val { return Int{W: a.W, S: signed, C: c & m} }
	as, bs := sext(a.C, a.W), sext(b.C, b.W)
	au, bu := a.C&m, b.C&m
	lt := func() bool {
		if signed {
			return as < bs
		}
		return au < bu
	}
	switch op {
	case token.ADD:
		return r(a.C + b.C)
	case token.SUB:
		return r(a.C - b.C)
	case token.MUL:
		return r(a.C * b.C)
	case token.AND:
		return r(a.C & b.C)
	case token.OR:
		return r(a.C | b.C)
	case token.XOR:
		return r(a.C ^ b.C)
	case token.AND_NOT:
		return r(a.C &^ b.C)
	case token.QUO:
		if bu == 0 {
			e.rtPanic("integer divide by zero")
		}
		if signed {
			if bs == -1 {
				return r(uint64(-as))
			}
			return r(uint64(as / bs))
		}
		return r(au / bu)
	case token.REM:
		if bu == 0 {
			e.rtPanic("integer divide by zero")
		}
		if signed {
			if bs == -1 {
				return r(0)
			}
			return r(uint64(as % bs))
		}
		return r(au % bu)
	case token.EQL:
		return Bool{C: au == bu}
	case token.NEQ:
		return Bool{C: au != bu}
	case token.LSS:
		return Bool{C: lt()}
	case token.LEQ:
		return Bool{C: lt() || au == bu}
	case token.GTR:
		return Bool{C: !lt() && au != bu}
	case token.GEQ:
		return Bool{C: !lt()}
	}
	unsup("concBin %s", op)
	return nil
}

func (e *Engine) fltCmp(op token.Token, a, b Flt) Bool {
	if !a.sym() && !b.sym() {
		x, y := a.f64(), b.f64()
		switch op {
		case token.EQL:
			return Bool{C: x == y}
		case token.NEQ:
			return Bool{C: x != y}
		case token.LSS:
			return Bool{C: x < y}
		case token.LEQ:
			return Bool{C: x <= y}
		case token.GTR:
			return Bool{C: x > y}
		case token.GEQ:
			return Bool{C: x >= y}
		}
	}
	at, bt := a.term(), b.term()
	switch op {
	case token.EQL:
		return Bool{T: "(fp.eq " + at + " " + bt + ")"}
	case token.NEQ:
		return Bool{T: "(not (fp.eq " + at + " " + bt + "))"}
	case token.LSS:
		return Bool{T: "(fp.lt " + at + " " + bt + ")"}
	case token.LEQ:
		return Bool{T: "(fp.leq " + at + " " + bt + ")"}
	case token.GTR:
		return Bool{T: "(fp.gt " + at + " " + bt + ")"}
	case token.GEQ:
		return Bool{T: "(fp.geq " + at + " " + bt + ")"}
	}
	unsup("float cmp %s", op)
	return Bool{}
}

func (e *Engine) fltArith(op token.Token, a, b Flt) Val {
	if !a.sym() && !b.sym() {
		if a.W == 32 {
			x, y := math.Float32frombits(uint32(a.C)), math.Float32frombits(uint32(b.C))
			var r float32
			switch op {
			case token.ADD:
				r = x + y
			case token.SUB:
				r = x - y
			case token.MUL:
				r = x * y
			case token.QUO:
				r = x / y
			default:
				unsup("float op %s", op)
			}
			return Flt{W: 32, C: uint64(math.Float32bits(r))}
		}
		x, y := math.Float64frombits(a.C), math.Float64frombits(b.C)
		var r float64
		switch op {
		case token.ADD:
			r = x + y
		case token.SUB:
			r = x - y
		case token.MUL:
			r = x * y
		case token.QUO:
			r = x / y
		default:
			unsup("float op %s", op)
		}
		return Flt{W: 64, C: math.Float64bits(r)}
	}
	var f string
	switch op {
	case token.ADD:
		f = "fp.add"
	case token.SUB:
		f = "fp.sub"
	case token.MUL:
		f = "fp.mul"
	case token.QUO:
		f = "fp.div"
	default:
		unsup("float op %s", op)
	}
	return Flt{W: a.W, T: e.nameFP("("+f+" RNE "+a.term()+" "+b.term()+")", a.W)}
}

func (e *Engine) convert(x Val, from, to types.Type) Val {
	tu := to.Underlying()
	fu := from.Underlying()
	switch tu := tu.(type) {
	case *types.Basic:
		switch {
		case tu.Info()&types.IsString != 0:
			switch xv := x.(type) {
			case Slice:
				if bt, ok := fu.(*types.Slice); ok {
					if eb, ok := bt.Elem().Underlying().(*types.Basic); ok && eb.Kind() == types.Int32 {
						unsup("convert []rune to string")
					}
				}
				return Str{B: append([]Val{}, e.cells(xv)...)}
			case Str:
				return xv
			case Int:
				if xv.sym() {
					unsup("string(symbolic rune)")
				}
				return mkStr(string(rune(sext(xv.C, xv.W))))
			}
			unsup("convert %T to string", x)
		case tu.Info()&types.IsInteger != 0:
			w, s := width(tu), tu.Info()&types.IsUnsigned == 0
			switch xi := x.(type) {
			case Int:
				fs := isSigned(from)
				if !xi.sym() {
					c := xi.C & mask(xi.W)
					if fs {
						c = uint64(sext(xi.C, xi.W))
					}
					return Int{W: w, S: s, C: c & mask(w)}
				}
				var t string
				switch {
				case w == xi.W:
					t = xi.T
				case w < xi.W:
					t = fmt.Sprintf("((_ extract %d 0) %s)", w-1, xi.T)
				case fs:
					t = fmt.Sprintf("((_ sign_extend %d) %s)", w-xi.W, xi.T)
				default:
					t = fmt.Sprintf("((_ zero_extend %d) %s)", w-xi.W, xi.T)
				}
				return Int{W: w, S: s, T: t}
			case Flt:
				if !xi.sym() {
					f := xi.f64()
					if s {
						var r int64
						switch w {
						case 64:
							r = int64(f)
						case 32:
							r = int64(int32(f))
						case 16:
							r = int64(int16(f))
						default:
							r = int64(int8(f))
						}
						return Int{W: w, S: true, C: uint64(r) & mask(w)}
					}
					var r uint64
					switch w {
					case 64:
						r = uint64(f)
					case 32:
						r = uint64(uint32(f))
					case 16:
						r = uint64(uint16(f))
					default:
						r = uint64(uint8(f))
					}
					return Int{W: w, S: false, C: r & mask(w)}
				}
				if s && w == 64 {
					// amd64 CVTTSD2SQ: NaN / out of range → 0x8000000000000000
					ft := xi.T
					lo := fpOfBits(bvLit(math.Float64bits(-9223372036854775808.0), 64), 64)
					hi := fpOfBits(bvLit(math.Float64bits(9223372036854775808.0), 64), 64)
					if xi.W == 32 {
						lo = fpOfBits(bvLit(uint64(math.Float32bits(-9223372036854775808.0)), 32), 32)
						hi = fpOfBits(bvLit(uint64(math.Float32bits(9223372036854775808.0)), 32), 32)
					}
					t := fmt.Sprintf("(ite (and (fp.geq %s %s) (fp.lt %s %s)) ((_ fp.to_sbv 64) RTZ %s) #x8000000000000000)", ft, lo, ft, hi, ft)
					return Int{W: 64, S: true, T: e.nameBV(t, 64)}
				}
				unsup("symbolic float → %s conversion", to)
			case Ptr:
				if tu.Kind() == types.Uintptr {
					unsup("pointer → uintptr")
				}
			}
		case tu.Info()&types.IsFloat != 0:
			w := 64
			if tu.Kind() == types.Float32 {
				w = 32
			}
			switch xv := x.(type) {
			case Int:
				fs := isSigned(from)
				if !xv.sym() {
					var f float64
					if fs {
						if w == 32 {
							f = float64(float32(sext(xv.C, xv.W)))
						} else {
							f = float64(sext(xv.C, xv.W))
						}
					} else {
						if w == 32 {
							f = float64(float32(xv.C & mask(xv.W)))
						} else {
							f = float64(xv.C & mask(xv.W))
						}
					}
					return mkFlt(w, f)
				}
				eb, sb := 11, 53
				if w == 32 {
					eb, sb = 8, 24
				}
				if fs {
					return Flt{W: w, T: e.nameFP(fmt.Sprintf("((_ to_fp %d %d) RNE %s)", eb, sb, xv.T), w)}
				}
				return Flt{W: w, T: e.nameFP(fmt.Sprintf("((_ to_fp_unsigned %d %d) RNE %s)", eb, sb, xv.T), w)}
			case Flt:
				if xv.W == w {
					return xv
				}
				if !xv.sym() {
					return mkFlt(w, xv.f64())
				}
				eb, sb := 11, 53
				if w == 32 {
					eb, sb = 8, 24
				}
				return Flt{W: w, T: e.nameFP(fmt.Sprintf("((_ to_fp %d %d) RNE %s)", eb, sb, xv.T), w)}
			}
		case tu.Kind() == types.UnsafePointer:
			return x
		}
	case *types.Slice:
		if s, ok := x.(Str); ok {
			if eb, ok := tu.Elem().Underlying().(*types.Basic); ok && eb.Kind() == types.Int32 {
				unsup("convert string to []rune")
			}
			a := Agg{F: append([]Val{}, s.B...)}
			return Slice{O: e.newObj(a), Len: len(a.F), Cap: len(a.F)}
		}
		if s, ok := x.(Slice); ok {
			return s
		}
	case *types.Pointer:
		return x
	}
	unsup("convert %s -> %s (%T)", from, to, x)
	return nil
}

func (e *Engine) builtin(b *ssa.Builtin, args []Val) Val {
	name := b.Name()
	ilen := func(n int) Val { return Int{W: 64, S: true, C: uint64(n)} }
	switch name {
	case "len":
		switch x := args[0].(type) {
		case Slice:
			return ilen(x.Len)
		case Str:
			return ilen(len(x.B))
		case Map:
			n := 0
			if x.M != nil {
				n = len(x.M.idx)
			}
			return ilen(n)
		case Chan:
			if x.C == nil {
				return ilen(0)
			}
			return ilen(len(x.C.buf))
		case Ptr:
			return ilen(len(e.loadRaw(x).(Agg).F))
		case Agg:
			return ilen(len(x.F))
		}
	case "cap":
		switch x := args[0].(type) {
		case Slice:
			return ilen(x.Cap)
		case Chan:
			if x.C == nil {
				return ilen(0)
			}
			return ilen(x.C.cap)
		case Agg:
			return ilen(len(x.F))
		}
	case "delete":
		m := args[0].(Map)
		if m.M != nil {
			e.mapDelete(m.M, args[1])
		}
		return nil
	case "clear":
		switch x := args[0].(type) {
		case Map:
			if x.M != nil {
				for k, i := range x.M.idx {
					x.M.dead[i] = true
					delete(x.M.idx, k)
				}
			}
		case Slice:
			cs := e.cells(x)
			et := b.Type().(*types.Signature).Params().At(0).Type().Underlying().(*types.Slice).Elem()
			for i := range cs {
				cs[i] = zero(et)
			}
		}
		return nil
	case "append":
		a := args[0].(Slice)
		var bc []Val
		switch b := args[1].(type) {
		case Slice:
			bc = e.cells(b)
		case Str:
			bc = b.B
		}
		if len(bc) == 0 {
			return a
		}
		if a.Len+len(bc) <= a.Cap {
			full := Slice{O: a.O, Base: a.Base, Off: a.Off, Len: a.Len + len(bc), Cap: a.Cap}
			dst := e.cells(full)
			tmp := make([]Val, len(bc))
			for i, c := range bc {
				tmp[i] = copyVal(c)
			}
			copy(dst[a.Len:], tmp)
			return full
		}
		nc := a.Len + len(bc)
		// growth like Go's (amortised doubling) is not observable except through cap(); keep it simple but
		// leave head-room so that aliasing behaviour of repeated appends resembles the real one
		capN := nc
		if a.Cap > 0 && nc < 2*a.Cap {
			capN = 2 * a.Cap
		}
		n := Agg{F: make([]Val, 0, capN)}
		for _, c := range e.cells(a) {
			n.F = append(n.F, copyVal(c))
		}
		for _, c := range bc {
			n.F = append(n.F, copyVal(c))
		}
		var zt Val
		if len(n.F) > 0 {
			zt = zeroLike(n.F[0])
		}
		for len(n.F) < capN {
			n.F = append(n.F, zt)
		}
		return Slice{O: e.newObj(n), Len: nc, Cap: capN}
	case "copy":
		d := e.cells(args[0].(Slice))
		var s []Val
		switch b := args[1].(type) {
		case Slice:
			s = e.cells(b)
		case Str:
			s = b.B
		}
		n := len(d)
		if len(s) < n {
			n = len(s)
		}
		tmp := make([]Val, n)
		for i := 0; i < n; i++ {
			tmp[i] = copyVal(s[i])
		}
		copy(d, tmp)
		return ilen(n)
	case "min", "max":
		r := args[0]
		for _, a := range args[1:] {
			var less Bool
			switch rv := r.(type) {
			case Int:
				less = e.intBinop(token.LSS, a.(Int), rv, rv.S).(Bool)
			case Flt:
				less = e.fltCmp(token.LSS, a.(Flt), rv)
			case Str:
				l, _ := lexCmp(a.(Str).B, rv.B)
				less = l
			default:
				unsup("min/max on %T", r)
			}
			if name == "max" {
				switch rv := r.(type) {
				case Int:
					less = e.intBinop(token.GTR, a.(Int), rv, rv.S).(Bool)
				case Flt:
					less = e.fltCmp(token.GTR, a.(Flt), rv)
				case Str:
					l, _ := lexCmp(rv.B, a.(Str).B)
					less = l
				}
			}
			if e.branch(less) {
				r = a
			}
		}
		return r
	case "panic":
		panic(goPanic{msg: "explicit panic (builtin)", val: args[0]})
	case "recover":
		if e.panicking != nil {
			v := e.panicking.val
			e.panicking = nil
			if v == nil {
				return Iface{T: e.opaqueT, V: &Opaque{Kind: "panic"}}
			}
			return v
		}
		return Iface{}
	case "close":
		ch := args[0].(Chan)
		if ch.C == nil {
			e.rtPanic("close of nil channel")
		}
		e.closeChan(ch.C)
		return nil
	case "print", "println":
		return nil
	case "ssa:wrapnilchk":
		if p, ok := args[0].(Ptr); ok && p.O == nil && p.SD == nil {
			e.rtPanic("value method called using nil pointer")
		}
		return args[0]
	case "StringData":
		s := args[0].(Str)
		return Ptr{SD: &s}
	case "SliceData":
		s := args[0].(Slice)
		if s.O == nil {
			return Ptr{}
		}
		return Ptr{O: s.O, P: extPath(s.Base, s.Off)}
	case "Slice":
		p := args[0].(Ptr)
		n := e.concInt(args[1], "unsafe.Slice len")
		if p.SD != nil {
			if n > len(p.SD.B) {
				e.rtPanic("unsafe.Slice: len out of range")
			}
			a := Agg{F: append([]Val{}, p.SD.B[:n]...)}
			return Slice{O: e.newObj(a), Len: n, Cap: n}
		}
		if p.O == nil {
			if n == 0 {
				return Slice{}
			}
			e.rtPanic("unsafe.Slice: ptr is nil and len is not zero")
		}
		if len(p.P) == 0 {
			unsup("unsafe.Slice on non-element pointer")
		}
		base, off := p.P[:len(p.P)-1], p.P[len(p.P)-1]
		tot := len(e.loadRaw(Ptr{O: p.O, P: base}).(Agg).F)
		return Slice{O: p.O, Base: base, Off: off, Len: n, Cap: tot - off}
	case "String":
		p := args[0].(Ptr)
		n := e.concInt(args[1], "unsafe.String len")
		if p.SD != nil {
			return Str{B: p.SD.B[:n]}
		}
		if p.O == nil {
			return Str{}
		}
		base, off := p.P[:len(p.P)-1], p.P[len(p.P)-1]
		cells := e.loadRaw(Ptr{O: p.O, P: base}).(Agg).F
		return Str{B: append([]Val{}, cells[off:off+n]...)}
	}
	unsup("builtin %s(%T)", name, args[0])
	return nil
}

func zeroLike(v Val) Val {
	switch x := v.(type) {
	case Int:
		return Int{W: x.W, S: x.S}
	case Bool:
		return Bool{}
	case Flt:
		return Flt{W: x.W}
	case Str:
		return Str{}
	case Agg:
		n := Agg{F: make([]Val, len(x.F))}
		for i, f := range x.F {
			n.F[i] = zeroLike(f)
		}
		return n
	case Ptr:
		return Ptr{}
	case Slice:
		return Slice{}
	case Iface:
		return Iface{}
	case Map:
		return Map{}
	case Closure:
		return Closure{}
	case Chan:
		return Chan{}
	}
	return nil
}
