// globals.go: package-level variables and package initialisers.
//
// Initialisers are run lazily, per package, the first time one of the package's variables is
// touched on a path. The synthesized init is executed instruction by instruction; an instruction
// that cannot be executed poisons its result, a poisoned value stored to a variable poisons the
// variable, and a user-written init() function that cannot be executed poisons every variable it
// stores to. Reading a poisoned variable is UNSUPPORTED (never a silent zero).
package main

import (
	"encoding/hex"
	"fmt"
	"go/types"
	"strings"

	"golang.org/x/tools/go/ssa"
)

// Package-level state lives in two worlds. The *pristine* world (per worker, kept across paths) holds the
// result of running each package initialiser exactly once; it is never handed to code under test. A path
// sees copies: the first access to a variable on a path deep-copies the pristine object graph reachable
// from it (an identity map per path keeps aliasing between variables intact), so whatever a path does to
// global state cannot leak into another path, and initialisers are not re-executed for every path.
func (e *Engine) global(g *ssa.Global) *Obj {
	if e.inPristine {
		if o, ok := e.pristine[g]; ok {
			return o
		}
		if g.Pkg != nil && !e.pristineInited[g.Pkg] {
			e.runInit(g.Pkg)
			if o, ok := e.pristine[g]; ok {
				return o
			}
		}
		o := e.newObj(zero(g.Type().(*types.Pointer).Elem()))
		e.pristine[g] = o
		e.applyOverride(g, o)
		return o
	}
	if o, ok := e.globals[g]; ok {
		return o
	}
	// materialise from the pristine world
	saved := e.inPristine
	e.inPristine = true
	po := func() *Obj {
		defer func() { e.inPristine = saved }()
		return e.global(g)
	}()
	o := e.copyObj(po)
	e.globals[g] = o
	return o
}

func (e *Engine) globalRaw(g *ssa.Global) *Obj {
	if !e.inPristine {
		return e.global(g)
	}
	if o, ok := e.pristine[g]; ok {
		return o
	}
	o := e.newObj(zero(g.Type().(*types.Pointer).Elem()))
	e.pristine[g] = o
	return o
}

func (e *Engine) copyObj(po *Obj) *Obj {
	if po == nil {
		return nil
	}
	if o, ok := e.copyMap[po]; ok {
		return o
	}
	o := e.newObj(nil)
	e.copyMap[po] = o
	o.V = e.copyDeep(po.V)
	return o
}

func (e *Engine) copyDeep(v Val) Val {
	switch x := v.(type) {
	case Agg:
		n := Agg{F: make([]Val, len(x.F))}
		for i, f := range x.F {
			n.F[i] = e.copyDeep(f)
		}
		return n
	case Ptr:
		if x.O == nil {
			return x
		}
		return Ptr{O: e.copyObj(x.O), P: x.P, SD: x.SD}
	case Slice:
		if x.O == nil {
			return x
		}
		return Slice{O: e.copyObj(x.O), Base: x.Base, Off: x.Off, Len: x.Len, Cap: x.Cap}
	case Iface:
		return Iface{T: x.T, V: e.copyDeep(x.V)}
	case Closure:
		if len(x.Env) == 0 {
			return x
		}
		n := Closure{Fn: x.Fn, Native: x.Native, Env: make([]Val, len(x.Env))}
		for i, f := range x.Env {
			n.Env[i] = e.copyDeep(f)
		}
		return n
	case Tuple:
		n := make(Tuple, len(x))
		for i, f := range x {
			n[i] = e.copyDeep(f)
		}
		return n
	case Map:
		if x.M == nil {
			return x
		}
		if m, ok := e.copyMaps[x.M]; ok {
			return Map{M: m}
		}
		e.objID++
		m := &MapObj{idx: map[string]int{}, dead: map[int]bool{}, id: e.objID}
		e.copyMaps[x.M] = m
		for i := range x.M.keys {
			if x.M.dead[i] {
				continue
			}
			k := e.copyDeep(x.M.keys[i])
			m.idx[e.canonKey(k)] = len(m.keys)
			m.keys = append(m.keys, k)
			m.vals = append(m.vals, e.copyDeep(x.M.vals[i]))
		}
		return Map{M: m}
	case Chan:
		if x.C == nil {
			return x
		}
		e.objID++
		c := &ChanObj{cap: x.C.cap, closed: x.C.closed, id: e.objID}
		for _, b := range x.C.buf {
			c.buf = append(c.buf, e.copyDeep(b))
		}
		return Chan{C: c}
	}
	return v
}

func (e *Engine) applyOverride(g *ssa.Global, o *Obj) {
	if e.cfg == nil {
		return
	}
	ov, ok := e.cfg.Overrides[g.String()]
	if !ok {
		return
	}
	switch {
	case strings.HasPrefix(ov, "bytes:"):
		b, err := hex.DecodeString(ov[6:])
		if err != nil {
			unsup("bad override %s", ov)
		}
		a := Agg{F: make([]Val, len(b))}
		for i, c := range b {
			a.F[i] = Int{W: 8, C: uint64(c)}
		}
		o.V = Slice{O: e.newObj(a), Len: len(b), Cap: len(b)}
	case strings.HasPrefix(ov, "func:"):
		// a function-typed variable bound to a named function (e.g. a key generator chosen in an init())
		name := ov[5:]
		dot := strings.LastIndex(name, ".")
		pkg := e.prog.ImportedPackage(name[:dot])
		if pkg == nil || pkg.Func(name[dot+1:]) == nil {
			unsup("override %s: no such function", ov)
		}
		o.V = Closure{Fn: pkg.Func(name[dot+1:])}
	case ov == "opaque":
		// a value that is only passed through to redirected / stubbed callees
		o.V = Iface{T: e.logT, V: e.newOpaque("override:" + g.String())}
	default:
		unsup("override kind %s", ov)
	}
	e.stubs["<global override> "+g.String()]++
}

// directly stored globals of a function (no callees)
func storedGlobals(fn *ssa.Function) []*ssa.Global {
	var gs []*ssa.Global
	for _, b := range fn.Blocks {
		for _, in := range b.Instrs {
			st, ok := in.(*ssa.Store)
			if !ok {
				continue
			}
			var a ssa.Value = st.Addr
			for {
				switch x := a.(type) {
				case *ssa.FieldAddr:
					a = x.X
					continue
				case *ssa.IndexAddr:
					a = x.X
					continue
				}
				break
			}
			if g, ok := a.(*ssa.Global); ok {
				gs = append(gs, g)
			}
		}
	}
	return gs
}

func isZeroVal(v Val) bool {
	switch x := v.(type) {
	case nil:
		return true
	case Int:
		return !x.sym() && x.C == 0
	case Bool:
		return !x.sym() && !x.C
	case Flt:
		return !x.sym() && x.C == 0
	case Str:
		return len(x.B) == 0
	case Agg:
		for _, f := range x.F {
			if !isZeroVal(f) {
				return false
			}
		}
		return true
	case Ptr:
		return x.O == nil && x.SD == nil
	case Slice:
		return x.O == nil
	case Iface:
		return x.T == nil
	case Map:
		return x.M == nil
	case Closure:
		return x.Fn == nil && x.Native == nil
	case Chan:
		return x.C == nil
	}
	return false
}

func (e *Engine) runInit(p *ssa.Package) {
	e.pristineInited[p] = true
	i0 := e.instrs
	defer func() {
		if e.initCost == nil {
			e.initCost = map[string]int{}
		}
		e.initCost[p.Pkg.Path()] += e.instrs - i0
	}()
	fn := p.Func("init")
	if fn == nil || fn.Blocks == nil {
		return
	}
	savedStack := e.stack
	e.stack = append(append([]string{}, savedStack...), "init:"+p.Pkg.Path())
	savedDepth := e.callDepth
	defer func() { e.stack = savedStack; e.callDepth = savedDepth }()
	fr := &frame{fn: fn, env: map[ssa.Value]Val{}, loops: map[*ssa.BasicBlock]int{}}
	for _, b := range fn.Blocks {
		fr.block = b
		for _, in := range b.Instrs {
			switch in := in.(type) {
			case *ssa.If, *ssa.Jump, *ssa.Return:
				continue
			case *ssa.Store:
				// the init guard
				if g, ok := in.Addr.(*ssa.Global); ok && g.Name() == "init$guard" {
					continue
				}
			case *ssa.UnOp:
				if g, ok := in.X.(*ssa.Global); ok && g.Name() == "init$guard" {
					fr.env[in] = Bool{}
					continue
				}
			case *ssa.Call:
				if f, ok := in.Call.Value.(*ssa.Function); ok {
					if f.Name() == "init" && f.Pkg != p {
						continue // other packages are initialised lazily on their own
					}
				}
			}
			e.initStep(p, fr, in)
		}
	}
	// harness-declared global overrides win over whatever the initialiser could (not) compute
	if e.cfg != nil {
		for name := range e.cfg.Overrides {
			for _, m := range p.Members {
				if g, ok := m.(*ssa.Global); ok && g.String() == name {
					e.applyOverride(g, e.globalRaw(g))
				}
			}
		}
	}
}

func (e *Engine) initStep(p *ssa.Package, fr *frame, in ssa.Instruction) {
	depth := len(e.stack)
	cd := e.callDepth
	defer func() {
		if r := recover(); r != nil {
			e.stack = e.stack[:depth]
			e.callDepth = cd
			var why string
			switch r := r.(type) {
			case unsupported:
				why = r.msg
			case goPanic:
				why = "panic in initialiser: " + r.msg
			case boundExceeded:
				why = r.msg
			case blockedPath:
				why = r.msg
			case engineBug:
				why = "not interpretable: " + r.msg
			default:
				panic(r)
			}
			e.stubs["<poisoned initialiser> "+p.Pkg.Path()]++
			if v, ok := in.(ssa.Value); ok {
				fr.env[v] = Poison{why}
			}
			// a user-written init function: poison what it stores to directly
			if c, ok := in.(*ssa.Call); ok {
				if f, ok := c.Call.Value.(*ssa.Function); ok && strings.HasPrefix(f.Name(), "init#") {
					for _, g := range storedGlobals(f) {
						o := e.globalRaw(g)
						if isZeroVal(o.V) {
							o.V = Poison{fmt.Sprintf("%s not executable: %s", f, why)}
						}
					}
				}
			}
		}
	}()
	if st, ok := in.(*ssa.Store); ok {
		if pv, ok := fr.env[st.Val].(Poison); ok {
			var a ssa.Value = st.Addr
			for {
				switch x := a.(type) {
				case *ssa.FieldAddr:
					a = x.X
					continue
				case *ssa.IndexAddr:
					a = x.X
					continue
				}
				break
			}
			if g, ok := a.(*ssa.Global); ok {
				e.globalRaw(g).V = pv
				return
			}
			// storing poison into a local aggregate: poison the local object
			if al, ok := a.(*ssa.Alloc); ok {
				if p, ok := fr.env[al].(Ptr); ok && p.O != nil {
					p.O.V = pv
				}
				return
			}
			return
		}
		// direct store to a global: make sure override (if any) wins afterwards
		if g, ok := st.Addr.(*ssa.Global); ok {
			o := e.globalRaw(g)
			e.store(Ptr{O: o}, e.get(fr, st.Val))
			e.applyOverride(g, o)
			return
		}
	}
	// operands that are poisoned poison the result
	for _, op := range in.Operands(nil) {
		if *op == nil {
			continue
		}
		if pv, ok := fr.env[*op].(Poison); ok {
			if v, ok := in.(ssa.Value); ok {
				fr.env[v] = pv
			}
			if c, ok := in.(*ssa.Call); ok {
				_ = c
			}
			return
		}
	}
	e.step(fr, in)
}
