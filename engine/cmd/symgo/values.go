// symgo — symbolic executor for Go SSA (x/tools v0.29.0) → SMT-LIB2.
// values.go: value representation. The heap shape is concrete on every path; only scalar
// leaves (integers, booleans, floats, bytes of strings/slices) may be symbolic.
package main

import (
	"fmt"
	"go/types"
	"strings"

	"golang.org/x/tools/go/ssa"
)

type Val = any

// Int is an integer of Go width W. Concrete when T == "", else T is an SMT term of sort (_ BitVec W).
type Int struct {
	W int
	S bool // signed (from the static Go type at creation)
	C uint64
	T string
}

// Bool: concrete or SMT Bool term.
type Bool struct {
	C bool
	T string
}

// Flt is a float32/float64. Concrete: C holds the IEEE bit pattern. Symbolic: T is a term of
// sort (_ FloatingPoint eb sb).
type Flt struct {
	W int
	C uint64
	T string
}

// Cplx is only carried around (never computed on).
type Cplx struct{ Re, Im Flt }

type Str struct{ B []Val } // cells are Int{W:8}; immutable
type Agg struct{ F []Val } // struct fields / array elements (value semantics: copied on load/store)
type Obj struct {
	V  Val
	id int
}
type Ptr struct {
	O *Obj
	P []int
	// unsafe string-data view: pointer into a string's bytes (for unsafe.StringData / unsafe.Slice)
	SD *Str
}
type Slice struct {
	O             *Obj
	Base          []int
	Off, Len, Cap int
}
type Iface struct {
	T types.Type
	V Val
}
type Closure struct {
	Fn  *ssa.Function
	Env []Val
	// bound intrinsic (engine-implemented func value), e.g. context cancel funcs
	Native func(e *Engine, args []Val) Val
}
type Tuple []Val
type MapObj struct {
	keys []Val
	vals []Val
	idx  map[string]int
	dead map[int]bool
	id   int
}
type Map struct{ M *MapObj }
type mapIter struct {
	m     *MapObj
	order []int
	pos   int
	str   *Str // range over string (byte-wise for ASCII only)
}
type ChanObj struct {
	buf    []Val
	vcs    []vclock // per buffered message: the sender's clock (threads)
	cap    int
	closed bool
	id     int
	sent, rcvd  int
	recvWaiting int
}
type Chan struct{ C *ChanObj }

// Opaque is a value without observable content: error objects, formatted strings,
// ciphertexts, signatures ... It remembers its constructor and arguments.
type Opaque struct {
	Kind string
	Args []Val
	id   int
}
type Poison struct{ Why string }

// control-flow panics used inside the engine
type abortPath struct{ why string } // infeasible / assumption failed
type unsupported struct{ msg string }
type goPanic struct {
	msg string
	val Val // the Go-level panic value (Iface), may be nil
}
type boundExceeded struct{ msg string }
type blockedPath struct{ msg string }
type inconclusive struct{ msg string }

func unsup(f string, a ...any) {
	panic(unsupported{fmt.Sprintf(f, a...)})
}

func mask(w int) uint64 {
	if w >= 64 {
		return ^uint64(0)
	}
	return (uint64(1) << uint(w)) - 1
}
func (i Int) sym() bool  { return i.T != "" }
func (b Bool) sym() bool { return b.T != "" }
func (f Flt) sym() bool  { return f.T != "" }
func (i Int) term() string {
	if i.T != "" {
		return i.T
	}
	return bvLit(i.C, i.W)
}
func bvLit(c uint64, w int) string {
	c &= mask(w)
	if w%4 == 0 {
		return fmt.Sprintf("#x%0*x", w/4, c)
	}
	return fmt.Sprintf("(_ bv%d %d)", c, w)
}
func (b Bool) term() string {
	if b.T != "" {
		return b.T
	}
	if b.C {
		return "true"
	}
	return "false"
}
func fpSort(w int) string {
	if w == 32 {
		return "(_ FloatingPoint 8 24)"
	}
	return "(_ FloatingPoint 11 53)"
}
func fpOfBits(bits string, w int) string {
	if w == 32 {
		return "((_ to_fp 8 24) " + bits + ")"
	}
	return "((_ to_fp 11 53) " + bits + ")"
}
func (f Flt) term() string {
	if f.T != "" {
		return f.T
	}
	return fpOfBits(bvLit(f.C, f.W), f.W)
}

// bitsOf returns the bit-vector term of a symbolic float if it is syntactically to_fp(bits).
func (f Flt) bitsTerm() (string, bool) {
	p := "((_ to_fp 11 53) "
	if f.W == 32 {
		p = "((_ to_fp 8 24) "
	}
	if strings.HasPrefix(f.T, p) && strings.HasSuffix(f.T, ")") {
		inner := f.T[len(p) : len(f.T)-1]
		// inner must be a single balanced term and not start with a rounding mode
		if !strings.HasPrefix(inner, "RNE ") && !strings.HasPrefix(inner, "RTZ ") && balanced(inner) {
			return inner, true
		}
	}
	return "", false
}
func balanced(s string) bool {
	d := 0
	for i := 0; i < len(s); i++ {
		switch s[i] {
		case '(':
			d++
		case ')':
			d--
			if d < 0 {
				return false
			}
		case ' ':
			if d == 0 {
				return false
			}
		}
	}
	return d == 0
}

func sext(c uint64, w int) int64 { sh := uint(64 - w); return int64(c<<sh) >> sh }
func mkStr(s string) Str {
	r := Str{B: make([]Val, len(s))}
	for i := 0; i < len(s); i++ {
		r.B[i] = Int{W: 8, C: uint64(s[i])}
	}
	return r
}
func (s Str) concrete() (string, bool) {
	b := make([]byte, len(s.B))
	for i, c := range s.B {
		ci := c.(Int)
		if ci.sym() {
			return "", false
		}
		b[i] = byte(ci.C)
	}
	return string(b), true
}
func mustStr(v Val, what string) string {
	s, ok := v.(Str).concrete()
	if !ok {
		unsup("symbolic string where concrete needed: %s", what)
	}
	return s
}

func copyVal(v Val) Val {
	if a, ok := v.(Agg); ok {
		n := Agg{F: make([]Val, len(a.F))}
		for i, f := range a.F {
			n.F[i] = copyVal(f)
		}
		return n
	}
	return v
}

func bAnd(a, b Bool) Bool {
	if !a.sym() {
		if a.C {
			return b
		}
		return Bool{}
	}
	if !b.sym() {
		if b.C {
			return a
		}
		return Bool{}
	}
	return Bool{T: "(and " + a.T + " " + b.T + ")"}
}
func bOr(a, b Bool) Bool {
	if !a.sym() {
		if a.C {
			return Bool{C: true}
		}
		return b
	}
	if !b.sym() {
		if b.C {
			return Bool{C: true}
		}
		return a
	}
	return Bool{T: "(or " + a.T + " " + b.T + ")"}
}
func bNot(a Bool) Bool {
	if !a.sym() {
		return Bool{C: !a.C}
	}
	if strings.HasPrefix(a.T, "(not ") && balanced(a.T[5:len(a.T)-1]) {
		return Bool{T: a.T[5 : len(a.T)-1]}
	}
	return Bool{T: "(not " + a.T + ")"}
}
func bEq(a, b Bool) Bool {
	if !a.sym() && !b.sym() {
		return Bool{C: a.C == b.C}
	}
	if !a.sym() {
		if a.C {
			return b
		}
		return bNot(b)
	}
	if !b.sym() {
		if b.C {
			return a
		}
		return bNot(a)
	}
	return Bool{T: "(= " + a.T + " " + b.T + ")"}
}
func intEq(a, b Int) Bool {
	if !a.sym() && !b.sym() {
		return Bool{C: a.C&mask(a.W) == b.C&mask(b.W)}
	}
	if a.T != "" && a.T == b.T {
		return Bool{C: true}
	}
	return Bool{T: "(= " + a.term() + " " + b.term() + ")"}
}
func intLtU(a, b Int) Bool {
	if !a.sym() && !b.sym() {
		return Bool{C: a.C < b.C}
	}
	return Bool{T: "(bvult " + a.term() + " " + b.term() + ")"}
}

// lexicographic comparison of byte cells: returns (less, equal)
func lexCmp(a, b []Val) (Bool, Bool) {
	less, eq := Bool{}, Bool{C: true}
	if len(a) < len(b) {
		less = Bool{C: true}
	}
	n := len(a)
	if len(b) < n {
		n = len(b)
	}
	if len(a) != len(b) {
		eq = Bool{}
	}
	for i := n - 1; i >= 0; i-- {
		ai, bi := a[i].(Int), b[i].(Int)
		e := intEq(ai, bi)
		l := intLtU(ai, bi)
		less = bOr(l, bAnd(e, less))
		eq = bAnd(e, eq)
	}
	return less, eq
}

func width(b *types.Basic) int {
	switch b.Kind() {
	case types.Int8, types.Uint8:
		return 8
	case types.Int16, types.Uint16:
		return 16
	case types.Int32, types.Uint32:
		return 32
	}
	return 64
}

func isSigned(t types.Type) bool {
	if b, ok := t.Underlying().(*types.Basic); ok {
		return b.Info()&types.IsInteger != 0 && b.Info()&types.IsUnsigned == 0
	}
	return false
}

func zero(t types.Type) Val {
	switch u := t.Underlying().(type) {
	case *types.Basic:
		switch {
		case u.Info()&types.IsBoolean != 0:
			return Bool{}
		case u.Info()&types.IsInteger != 0:
			return Int{W: width(u), S: u.Info()&types.IsUnsigned == 0}
		case u.Info()&types.IsFloat != 0:
			if u.Kind() == types.Float32 {
				return Flt{W: 32}
			}
			return Flt{W: 64}
		case u.Info()&types.IsComplex != 0:
			return Cplx{Flt{W: 64}, Flt{W: 64}}
		case u.Info()&types.IsString != 0:
			return Str{}
		case u.Kind() == types.UnsafePointer:
			return Ptr{}
		case u.Kind() == types.UntypedNil:
			return nil
		}
	case *types.Struct:
		a := Agg{F: make([]Val, u.NumFields())}
		for i := 0; i < u.NumFields(); i++ {
			a.F[i] = zero(u.Field(i).Type())
		}
		return a
	case *types.Array:
		a := Agg{F: make([]Val, u.Len())}
		for i := int64(0); i < u.Len(); i++ {
			a.F[i] = zero(u.Elem())
		}
		return a
	case *types.Slice:
		return Slice{}
	case *types.Interface:
		return Iface{}
	case *types.Pointer:
		return Ptr{}
	case *types.Signature:
		return Closure{}
	case *types.Map:
		return Map{}
	case *types.Chan:
		return Chan{}
	case *types.Tuple:
		t := make(Tuple, u.Len())
		for i := 0; i < u.Len(); i++ {
			t[i] = zero(u.At(i).Type())
		}
		return t
	}
	unsup("zero: %s", t)
	return nil
}

func pathEq(a, b []int) bool {
	if len(a) != len(b) {
		return false
	}
	for i := range a {
		if a[i] != b[i] {
			return false
		}
	}
	return true
}

func extPath(p []int, i int) []int {
	n := make([]int, len(p)+1)
	copy(n, p)
	n[len(p)] = i
	return n
}
