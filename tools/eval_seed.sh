#!/bin/bash
# eval_seed.sh <seed-name> <property> [--only regex]: apply a seeded change to /repo, run the property's quick check, undo.
NAME=$1; PROP=$2; shift 2
cd /repo && git diff --quiet || { echo "/repo is dirty"; exit 2; }
git apply /verif/seeded/$NAME/patch.diff || { echo "PATCH-DOES-NOT-APPLY"; exit 2; }
cd /verif && ./check.py $PROP "$@" > /verif/seeded/$NAME/check_$PROP.log 2>&1; RC=$?
git -C /repo checkout -- .
echo "check $PROP on seed $NAME: exit=$RC"; grep -c "^VIOLATION" /verif/seeded/$NAME/check_$PROP.log; grep "^VIOLATION" -A1 /verif/seeded/$NAME/check_$PROP.log | head -4
exit 0
