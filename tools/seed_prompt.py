#!/usr/bin/env python3
"""seed_prompt.py <worktree name e.g. C04b> <property id> [hint about what was already tried]: prints the prompt given to a fresh
sub-agent that seeds a property-breaking change (the agent sees only the property text and its own worktree)."""
import sys
wt, prop = sys.argv[1], sys.argv[2]
avoid = sys.argv[3] if len(sys.argv) > 3 else ""
print(f"""You are helping evaluate a verification setup for the Go project sourcenetwork/defradb (a peer-to-peer document database). Your job: produce ONE realistic source change (the kind of slip a maintainer could make in a refactor or "optimisation") that BREAKS the semantic property below, while the project still COMPILES and its EXISTING test suite still PASSES. Also produce a small demonstration test that fails with your change and passes without it.

Your working copy is a scratch git worktree at /tmp/mut/{wt} (a checkout of the repository). Work ONLY there. Do not touch /repo, do not read or use anything under /verif. Do not use `git stash` (the stash is shared between worktrees); to undo use `git checkout -- <file>` or `git apply -R <patch>` inside /tmp/mut/{wt}.

The property (JSON, includes code anchors): read /tmp/mut/{wt}.property.txt.

Environment: no network. Run go with `export GOFLAGS=-mod=mod GOPROXY=off` (do NOT set GOSUMDB or GOTOOLCHAIN). `go build ./...` takes ~1 min cold. The full suite is `go test -vet=off -count=1 -timeout 40m ./...` (about 10-15 minutes; about 48 tests under tests/integration/schema/migrations, tests/integration/lens and similar fail on the UNCHANGED tree because wasm lens files are missing — ignore those; some net/ p2p tests are timing sensitive under CPU load — if one fails, re-run it alone). Run at least the packages related to your change plus the integration tests that exercise it; running the whole suite once is best.

Requirements for the change:
- It must be in non-test source code of the repository, small (a few lines), plausible, and not an obvious sabotage (no special-casing of a literal input). It should change behaviour only for particular inputs / histories / schedules / fault points so that the existing tests do not notice.
- It must make the property false for some concrete input or history (say which).
- The project must build, and the existing tests must still pass with the change (apart from tests that also fail on the unchanged tree).
{('- Choose something DIFFERENT from this earlier attempt: ' + avoid) if avoid else ''}

Requirements for the demonstration:
- One Go test file named zz_demo_test.go placed in a suitable package directory of the worktree (test function names starting with TestZZDemo), which FAILS with your change and PASSES without it (deterministically). Unit-level (internal access is fine) or integration-style using the existing test framework under tests/integration.

Deliverables, all inside /tmp/mut/{wt}/_out/ (create the directory):
- patch.diff : `git diff` of your source change ONLY (not the demo test) relative to the worktree's HEAD.
- zz_demo_test.go : a copy of the demonstration test file.
- demo_path.txt : the path of the demo test file relative to the worktree root (e.g. internal/db/zz_demo_test.go), single line.
- meta.json : {{"property":"{prop}","summary":"what you changed and why it looks innocent","needs":"the concrete input/history needed to expose it","tests_run":["commands you ran and their results"],"demo_cmd":"command to run the demo"}}.
Leave the worktree with your change applied and the demo test in place.

Report back briefly: what you changed, the input/history that exposes it, and the evidence (commands + results) that the build and existing tests pass with the change and that the demo fails with / passes without it.""")
