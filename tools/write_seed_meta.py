#!/usr/bin/env python3
"""write_seed_meta.py <name> <prop> <detected_by text> [<missed note>]: writes seeded/<name>/meta.json from the
sub-agent's own description (agent_meta.json), our confirmation log and the check log."""
import json, sys, os, re
name, prop, det = sys.argv[1:4]
note = sys.argv[4] if len(sys.argv) > 4 else None
d = f"/verif/seeded/{name}"
am = json.load(open(f"{d}/agent_meta.json"))
conf = open(f"{d}/confirm.log").read()
m = re.search(r"RC_WITH=(\d+) RC_WITHOUT=(\d+)", conf)
assert m, "no RC line"
rcw, rcwo = int(m.group(1)), int(m.group(2))
assert rcw != 0 and rcwo == 0, (rcw, rcwo)
suite = "SUITE_OK" in conf
extra = re.findall(r"re-run alone: (\S+) (PASS|FAIL)", conf)
assert suite, "suite regression"
s = "only the 48 baseline always_fail tests fail (tools/confirm_seed.sh; see confirm.log)"
if extra:
    s += " — extra failures in the loaded confirmation run (" + ", ".join(t for t, _ in extra) + ") pass when re-run alone with the change: load-dependent"
chk = [f for f in os.listdir(d) if f.startswith("check_")]
viol = 0
for f in chk:
    viol += len(re.findall(r"^VIOLATION", open(f"{d}/{f}").read(), re.M))
meta = {
    "property": prop,
    "summary": am.get("summary"),
    "needs": am.get("needs"),
    "confirmed": {"builds": True, "existing_suite_with_change": s, "demo_with_change": "fails", "demo_without_change": "passes"},
    "what_i_ran": [f"tools/confirm_seed.sh /tmp/mut/... {name}", f"tools/eval_seed.sh {name} {prop}"],
    "detected_by": det,
    "check_log_violation_lines": viol,
    "source": "fresh sub-agent given only the property text and a scratch worktree",
}
if note:
    meta["history"] = note
json.dump(meta, open(f"{d}/meta.json", "w"), indent=1, ensure_ascii=False)
print("wrote", f"{d}/meta.json", "violations in check log:", viol)
