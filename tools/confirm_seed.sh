#!/bin/bash
# confirm_seed.sh <worktree> <name> : confirm a seeded change produced by a sub-agent
#  (1) the tree with the change builds, (2) the existing suite passes with it (only the baseline's
#  always-failing tests may fail), (3) the demonstration fails with the change and passes without it.
# Writes /verif/seeded/<name>/{patch.diff,demo,meta.json,confirm.log}. Never touches /repo.
set -u
WT=$1; NAME=$2
OUT=/verif/seeded/$NAME
mkdir -p $OUT
export GOFLAGS=-mod=mod GOPROXY=off
unset GOTOOLCHAIN GOSUMDB
cd $WT || exit 2
cp _out/patch.diff $OUT/patch.diff
DEMO=$(cat _out/demo_path.txt | tr -d '\n ')
cp "_out/$(basename $DEMO)" $OUT/ 2>/dev/null
cp _out/meta.json $OUT/agent_meta.json
LOG=$OUT/confirm.log; : > $LOG
# clean state: apply patch fresh
git checkout -q -- . ; git apply $OUT/patch.diff || { echo "patch does not apply" | tee -a $LOG; exit 2; }
mkdir -p $(dirname $DEMO); cp $OUT/$(basename $DEMO) $DEMO
PKG=./$(dirname $DEMO)
echo "== build with change" | tee -a $LOG
go build ./... 2>&1 | tail -5 | tee -a $LOG
echo "== demo WITH change (expect FAIL)" | tee -a $LOG
go test -vet=off -count=1 -run 'Demo' $PKG > $OUT/demo_with.log 2>&1; RC_WITH=$?
tail -3 $OUT/demo_with.log | tee -a $LOG
echo "== existing suite WITH change (demo excluded)" | tee -a $LOG
mv $DEMO /tmp/$(basename $DEMO).$NAME.hold
go test -json -vet=off -count=1 -timeout 40m ./... > $OUT/suite_with.json 2>/dev/null
mv /tmp/$(basename $DEMO).$NAME.hold $DEMO
python3 - $OUT/suite_with.json <<'PY' | tee -a $LOG
import json,sys,subprocess,os
base=json.load(open('/root/.vp/BASELINE.json'))
af=set(t.split('::')[1] for t in base.get('always_fail',[]))
fails=set()
for line in open(sys.argv[1]):
    try: e=json.loads(line)
    except Exception: continue
    if e.get('Action')=='fail' and e.get('Test'):
        fails.add((e['Package'],e['Test'].split('/')[0]))
new=sorted((p,t) for p,t in fails if t not in af)
print("failing tests:",len(fails),"not in baseline always_fail:",[t for _,t in new][:20])
# timing-sensitive net tests fail under CPU load: re-run each unexpected failure alone, twice
still=[]
for pkg,t in new:
    ok=False
    for _ in range(2):
        r=subprocess.run(['go','test','-vet=off','-count=1','-run','^'+t+'$',pkg],capture_output=True,text=True)
        if r.returncode==0: ok=True; break
    print("  re-run alone:",t,"PASS" if ok else "FAIL")
    if not ok: still.append(t)
print("SUITE_OK" if not still else "SUITE_REGRESSION "+str(still))
PY
rm -f $OUT/suite_with.json
echo "== demo WITHOUT change (expect PASS)" | tee -a $LOG
git apply -R $OUT/patch.diff
go test -vet=off -count=1 -run 'Demo' $PKG > $OUT/demo_without.log 2>&1; RC_WITHOUT=$?
tail -3 $OUT/demo_without.log | tee -a $LOG
git apply $OUT/patch.diff
echo "RC_WITH=$RC_WITH RC_WITHOUT=$RC_WITHOUT" | tee -a $LOG
