"""C20 — update notifications: bus delivery complete/ordered/once (O1), only committed changes (O2)."""


def txn_jobs(tier):
    return [
        {"id": "O2.lifecycle", "func": "VerifH_TxnLifecycle", "conf": {}, "_obligation": "O2", "_covers": ["committed", "discarded"]},
        {"id": "twin", "func": "VerifH_Txn_Reach", "conf": {}, "_obligation": "vacuity", "_expect": "twin", "_covers": ["end"]},
    ]


def bus_jobs(tier):
    js = []
    for subs, pubs, names in (((1, 2, 3), (2, 2, 2), (3, 2, 1)) if tier == "quick" else ((1, 3, 3), (2, 2, 3), (2, 3, 2), (3, 2, 2))):
        js.append({"id": f"O1.bus.subs{subs}.pubs{pubs}.names{names}", "func": "VerifH_C20_Bus", "conf": {"subs": subs, "pubs": pubs, "names": names}, "map_order": True,
                   "_obligation": "O1", "_covers": ["handled"], "unwind": 200, "_blocked_ok": False})
    js.append({"id": "twin.bus", "func": "VerifH_C20_BusReach", "conf": {}, "_obligation": "vacuity", "_expect": "twin", "_covers": ["end"]})
    return js


from props import C02 as _c02

SAVE_REDIR = dict(_c02.REDIR)
SAVE_REDIR.update({
    "github.com/sourcenetwork/defradb/internal/core/block.putBlock": "vPutBlockEnv",
    "github.com/sourcenetwork/defradb/internal/core/block.GetFromBytes": "vGetFromBytes",
    "(github.com/sourcenetwork/defradb/client.FieldValue).Bytes": "vFieldValueBytes",
    "(*github.com/sourcenetwork/defradb/internal/db.collection).updateIndexedDoc": "sUpdateIndexedDocNoIndexes",
})
SAVE_OVR = dict(_c02.OVR)
SAVE_OVR["github.com/sourcenetwork/defradb/internal/core/block.BlockSchema"] = "opaque"
SAVE_FILES = ["zz_verif_env.go", "zz_verif_merge.go", "zz_verif_c07uniq.go", "zz_verif_save.go"]


def save_jobs(tier):
    return [{"id": f"O3.save.branchable{b}", "func": "VerifH_S1_Save", "conf": {"branchable": b, "faults": 0, "dag": "", "orders": "all", "shortid": 0, "for": "C20"},
             "map_order": True, "_obligation": "O3", "_covers": ["saved"], "unwind": 80} for b in (0, 1)]


def api_jobs(tier):
    return [{"id": f"O4.api-in-txn.branchable{b}", "func": "VerifH_C20_ApiInTxn", "conf": {"branchable": b, "faults": 0, "dag": "", "orders": "all", "shortid": 0, "for": "C20"},
             "_obligation": "O4", "_covers": ["operated", "committed", "discarded"], "unwind": 80} for b in (0, 1)]


API_REDIR = dict(SAVE_REDIR)
API_REDIR["(*github.com/sourcenetwork/defradb/client.Document).GenerateDocID"] = "sKeepDocID"
API_REDIR["(*github.com/sourcenetwork/defradb/internal/datastore.Multistore).Blockstore"] = "sBlockstore"
API_REDIR["(*github.com/sourcenetwork/defradb/internal/datastore.Multistore).Encstore"] = "sEncstore"

SAVE_SUITE = dict(_c02.SUITE, name="save", jobs=save_jobs, redirects=SAVE_REDIR, overrides=SAVE_OVR, files=SAVE_FILES)

PROPERTY = {
    "id": "C20",
    "suites": [SAVE_SUITE, dict(SAVE_SUITE, name="api", jobs=api_jobs, redirects=API_REDIR, files=SAVE_FILES + ["zz_verif_c20api.go"], common=["intrinsics", "kvmodel", "dagenv", "kvtxn"]), {"name": "bus", "pkg": "event", "files": ["zz_verif_c20.go"], "common": ["intrinsics"], "jobs": bus_jobs, "unwind": 200,
                "witnesses": {"quick": 16, "thorough": 48}},
               {"name": "datastore", "pkg": "internal/datastore", "files": ["zz_verif_txn.go"], "common": ["intrinsics", "kvmodel"], "jobs": txn_jobs}],
    "bounds": {"API level (O4)": "one document; Create, then optionally Update (second field), then optionally Delete, inside one explicit transaction; the caller commits or discards (inputs); plain and branchable collection; blocks live in the block table of the environment (putBlock, the block store accessors of the transaction, GenerateDocID and FieldValue.Bytes are redirected inside the solver run)",
               "bus": "1-3 subscribers with any subset of up to 3 event names and * (wildcard listed first or last), 2-3 publishes of symbolic names, each subscriber subscribes at any position and unsubscribes at any later one or never, every rotation of every map iteration; event buffers larger than the number of messages", "callbacks": "<= 2 each of success/error/discard", "commit outcome": "symbolic"},
    "assumptions": ["publication of update events is registered through Txn.OnSuccess (collection.save / applyDelete); checked here is that such callbacks run iff the store commit succeeded, once, in order"],
    "outside_claim": ["DeleteWithFilter / UpdateWithFilter and requests (planner, GraphQL) as sources of notifications", "GraphQL subscriptions", "cross-goroutine ordering"],
}
