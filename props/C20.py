"""C20 — update notifications: only committed changes (O2); bus delivery (O1) when built."""


def txn_jobs(tier):
    return [
        {"id": "O2.lifecycle", "func": "VerifH_TxnLifecycle", "conf": {}, "_obligation": "O2", "_covers": ["committed", "discarded"]},
        {"id": "twin", "func": "VerifH_Txn_Reach", "conf": {}, "_obligation": "vacuity", "_expect": "twin", "_covers": ["end"]},
    ]


PROPERTY = {
    "id": "C20",
    "suites": [{"name": "datastore", "pkg": "internal/datastore", "files": ["zz_verif_txn.go"], "common": ["intrinsics", "kvmodel"], "jobs": txn_jobs}],
    "bounds": {"callbacks": "<= 2 each of success/error/discard", "commit outcome": "symbolic"},
    "assumptions": ["publication of update events is registered through Txn.OnSuccess (collection.save / applyDelete); checked here is that such callbacks run iff the store commit succeeded, once, in order"],
    "outside_claim": ["that save/applyDelete register exactly one publication per new composite commit (client.Document)", "GraphQL subscriptions", "cross-goroutine ordering"],
}
