"""C13 — schema version/root identifiers are pure functions of the definitions (2-safety under order and map iteration)."""
REDIR = {"encoding/json.Marshal": "vCanonMarshal", "github.com/sourcenetwork/defradb/internal/core/cid.NewSHA256CidV1": "vIdentityCid"}


SHAPES = {
    # fixed shapes beyond the exhaustive bound (schema:relations, X/Y/Z are undefined types)
    "pair": "A:B|B:A",
    "pair-names-equal-ignoring-case": "A:a|a:A",
    "three-cycle": "A:B|B:C|C:A",
    "self-and-pair": "A:A|B:C|C:B",
    "hub-left-leaf": "H:L,H,X|L:H|O:Y",
    "two-pairs-joined": "A:B,C|B:A|C:D|D:C",
    "cycle-with-tail-and-undefined": "A:B,X|B:C,Y|C:A",
}


def jobs(tier):
    js = []
    for sn, shape in SHAPES.items():
        js.append({"id": f"O.schema-ids.shape.{sn}", "func": "VerifH_C13_SchemaIDs", "conf": {"s": 0, "slots": 0, "shape": shape}, "map_order": True,
                   "_obligation": "O", "_covers": ["assigned"], "unwind": 400, "_maporder_replay": True,
                   "max_paths": 600000 if tier == "quick" else 4000000})
    for s, slots in (((2, 2),) if tier == "quick" else ((2, 2), (3, 1))):  # (3,2) and (4,1) ran past 40 minutes each: not registered
        js.append({"id": f"O.schema-ids.s{s}.slots{slots}", "func": "VerifH_C13_SchemaIDs", "conf": {"s": s, "slots": slots, "shape": ""}, "map_order": True,
                   "_obligation": "O", "_covers": ["assigned"], "unwind": 200, "_maporder_replay": True,
                   "max_paths": 400000 if tier == "quick" else 3000000})
    js.append({"id": "twin", "func": "VerifH_C13_Reach", "conf": {}, "_obligation": "vacuity", "_expect": "twin", "_covers": ["end"]})
    return js


MO = 1
DOC_REDIR = {
    "(github.com/fxamacker/cbor/v2.EncOptions).EncMode": "dEncModeOf",
    "github.com/sourcenetwork/defradb/internal/core/cid.NewSHA256CidV1": "dFixedCid",
    "github.com/sourcenetwork/defradb/client.NewDocIDV0": "dFixedDocID",
}


def doc_jobs(tier):
    return [{"id": f"O2.document-id-bytes.{wn}", "func": "VerifH_C13_DocBytes", "conf": {"way": w}, "map_order": bool(MO), "max_paths": 200000,
             "_obligation": "O2", "_covers": ["built"], "unwind": 60} for w, wn in enumerate(("map-vs-map", "map-vs-set", "map-vs-json"))]


from props import C20 as _c20

VERIFY_REDIR = dict(_c20.API_REDIR)
VERIFY_REDIR["(*github.com/sourcenetwork/defradb/client.Document).GenerateDocID"] = "sDocIDOfContent"


def verify_jobs(tier):
    return [{"id": "O3.create-verifies-document-id", "func": "VerifH_C13_CreateVerifiesDocID",
             "conf": {"branchable": 0, "faults": 0, "dag": "", "orders": "all", "shortid": 0, "for": "C13"}, "_obligation": "O3", "_covers": ["created"], "unwind": 80}]


PROPERTY = {
    "id": "C13",
    "suites": [{"name": "schemaid", "pkg": "internal/db", "files": ["zz_verif_env.go", "zz_verif_merge.go", "zz_verif_c13.go"],
                "common": ["intrinsics", "kvmodel", "dagenv"], "jobs": jobs, "redirects": REDIR, "unwind": 200,
                "overrides": {"github.com/sourcenetwork/defradb/client.CborNil": "bytes:f6"}, "witnesses": {"quick": 8, "thorough": 24}},
               dict(_c20.SAVE_SUITE, name="createverify", jobs=verify_jobs, redirects=VERIFY_REDIR, files=_c20.SAVE_FILES + ["zz_verif_c20api.go"], common=["intrinsics", "kvmodel", "dagenv", "kvtxn"]),
               {"name": "docid", "pkg": "client", "files": ["zz_verif_c18.go", "zz_verif_c13doc.go"], "jobs": doc_jobs, "redirects": DOC_REDIR, "unwind": 60,
                "overrides": {"github.com/sourcenetwork/defradb/client.CborNil": "bytes:f6"}}],
    "bounds": {"fixed shapes": "pair, three-cycle, self+pair, hub with undefined leaf + unrelated one-way, two pairs joined, cycle with undefined tails — each under every permutation and every map rotation", "schemas": "2 with <=2 relation fields each, 3 with <=1 (thorough tier only) whose targets range over all schemas of the set, an undefined type, or none",
               "orders": "every permutation of the definitions for the second run; every map range takes every rotation of the slot order (what go1.23 produces for maps of <=8 entries), independently per range and per run"},
    "assumptions": ["inside generateSetID, json.Marshal is an injective function of the value and the SHA-256 CID an injective function of the bytes (both replaced inside the solver run: canonical serialisation, identity multihash; the real ones run natively); the rest of generateSetID runs for real",
                    "map iteration orders of the runtime for small maps are rotations of the slot order"],
    "outside_claim": ["the hash functions behind document ids (SHA-256 CID, UUIDv5) and the CBOR encoder itself (modelled as injective with sorted map keys); array / JSON / relation field values in document ids", "collection ids assigned by sequences", "schemas added in several calls"],
}
