"""C06 (thin) — the transaction plumbing of this repository preserves the isolation its store provides."""


def jobs(tier):
    n = 4 if tier == "quick" else 5
    names = ["data", "head", "system", "peer", "root"]
    return [{"id": f"O.isolation.{names[a]}-{names[b]}.ops{n}", "func": "VerifH_C06_Isolation", "conf": {"ops": n, "acc0": a, "acc1": b},
             "_obligation": "O", "_covers": ["scheduled"], "unwind": 60} for a, b in ((0, 1), (2, 3), (4, 0), (1, 3))]


PROPERTY = {
    "id": "C06",
    "suites": [{"name": "plumbing", "pkg": "internal/datastore", "files": ["zz_verif_txn.go", "zz_verif_c06.go"], "common": ["intrinsics", "kvmodel", "kvtxn"], "jobs": jobs}],
    "bounds": {"transactions": 2, "schedule": "4 (thorough 5) steps, each a write / read / commit / discard of one of the two transactions", "store accessors": "two per schedule out of data, head, system, peer, root (pairs data-head, system-peer, root-data, head-peer)", "keys": "one key, the same bytes under both accessors", "values": "one symbolic byte"},
    "assumptions": ["the store is the kvtxn model of the corekv contract: snapshot reads, own writes, read-write conflict detection at commit, nothing applied by a conflicting or discarded transaction"],
    "outside_claim": ["the isolation mechanism itself (badger, corekv/memory): not code of this repository", "the API level: collection operations, requests and index maintenance inside explicit transactions (GraphQL, planner)",
                      "block and encryption stores (content-addressed wrappers over the same prefixes)", "thread interleavings inside one operation"],
}
