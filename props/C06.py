"""C06 (thin) — the transaction plumbing of this repository preserves the isolation its store provides."""


def jobs(tier):
    n = 4 if tier == "quick" else 5
    names = ["data", "head", "system", "peer", "root"]
    return [{"id": f"O.isolation.{names[a]}-{names[b]}.ops{n}", "func": "VerifH_C06_Isolation", "conf": {"ops": n, "acc0": a, "acc1": b},
             "_obligation": "O", "_covers": ["scheduled"], "unwind": 60} for a, b in ((0, 1), (2, 3), (4, 0), (1, 3))]


from props import C02 as _c02, C20 as _c20

API = ["GetAllDocIDs", "Exists", "Get"]


def api_jobs(tier):
    return [{"id": f"O2.api-in-txn.{n}", "func": "VerifH_C06_ApiInTxn", "conf": {"api": i, "preempt": 1, "branchable": 0, "faults": 0},
             "_obligation": "O2", "_covers": ["called"]} for i, n in enumerate(API)]


def write_api_jobs(tier):
    return [{"id": f"O4.write-conflict.second-{nm}", "func": "VerifH_C06_WriteConflict", "conf": {"second": i, "branchable": 0, "faults": 0, "dag": "", "orders": "all", "shortid": 0, "for": "C06"},
             "_obligation": "O4", "_covers": ["committed"], "unwind": 120} for i, nm in enumerate(("updates-another-field", "updates-the-same-field", "deletes"))] + [dict(j, id=j["id"].replace("O4.", "O3.write-"), conf=dict(j["conf"], **{"for": "C06"}), _obligation="O3") for j in _c20.api_jobs(tier)]


PROPERTY = {
    "id": "C06",
    "suites": [{"name": "plumbing", "pkg": "internal/datastore", "files": ["zz_verif_txn.go", "zz_verif_c06.go"], "common": ["intrinsics", "kvmodel", "kvtxn"], "jobs": jobs},
               dict(_c02.SUITE, name="api", jobs=api_jobs, files=_c20.SAVE_FILES + ["zz_verif_c06api.go"], common=["intrinsics", "kvmodel", "dagenv", "kvtxn"]),
               dict(_c20.SAVE_SUITE, name="writeapi", jobs=write_api_jobs, redirects=_c20.API_REDIR, files=_c20.SAVE_FILES + ["zz_verif_c20api.go"], common=["intrinsics", "kvmodel", "dagenv", "kvtxn"])],
    "bounds": {"API level (O2)": "collection.GetAllDocIDs / Exists / Get inside one explicit transaction of a real db.NewTxn over the transactional store model; three documents: committed before the transaction started / written by the transaction / committed by someone else afterwards (each present or not: inputs); the scan goroutine of GetAllDocIDs runs under every schedule with 1 preemption",
               "transactions": 2, "schedule": "4 (thorough 5) steps, each a write / read / commit / discard of one of the two transactions", "store accessors": "two per schedule out of data, head, system, peer, root (pairs data-head, system-peer, root-data, head-peer)", "keys": "one key, the same bytes under both accessors", "values": "one symbolic byte"},
    "assumptions": ["the store is the kvtxn model of the corekv contract: snapshot reads, own writes, read-write conflict detection at commit, nothing applied by a conflicting or discarded transaction"],
    "outside_claim": ["the isolation mechanism itself (badger, corekv/memory): not code of this repository", "the rest of the API level: requests and index maintenance inside explicit transactions (GraphQL, planner), filtered mutations, schema and index changes",
                      "block and encryption stores (content-addressed wrappers over the same prefixes)", "thread interleavings inside one operation"],
}
