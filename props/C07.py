"""C07 — secondary indexes never change what a query returns (read side of the index fetcher)."""
KN = ["int", "float", "string", "bool"]
OPS = ["eq", "ne", "gt", "ge", "lt", "le", "in", "nin"]


def jobs(tier):
    js = _jobs(tier)
    for j in js:
        if j["func"] == "VerifH_C07_Index":
            j["conf"]["slen"] = 1 if tier == "quick" else 2
    return js


def _jobs(tier):
    js = []
    docs = 2
    kinds = (0, 2) if tier == "quick" else (0, 1, 2, 3)
    for k in kinds:
        for oi, op in enumerate(OPS):
            if KN[k] in ("bool", "string") and op in ("gt", "ge", "lt", "le"):
                continue  # ordered comparison is not offered for these kinds by the filter language
            for unique in (0, 1):
                for cnull in (0, 1):
                    if cnull and op in ("gt", "ge", "lt", "le"):
                        continue
                    js.append({"id": f"O1.single.{KN[k]}.{op}.u{unique}.cnull{cnull}", "func": "VerifH_C07_Index",
                               "conf": {"k0": k, "k1": -1, "unique": unique, "op0": oi, "op1": -1, "docs": docs, "order": 0, "cnull": cnull},
                               "_obligation": "O1+O2", "unwind": 40})
    # composite (int first field): operator on the first field, second field open / filtered
    sec = (0,) if tier == "quick" else (0, 2)
    for k1 in sec:
        for oi, op in enumerate(OPS):
            js.append({"id": f"O1.composite.int.{KN[k1]}.{op}.any", "func": "VerifH_C07_Index",
                       "conf": {"k0": 0, "k1": k1, "unique": 0, "op0": oi, "op1": -1, "docs": docs, "order": 0, "cnull": 0},
                       "_obligation": "O1+O2", "unwind": 40})
        for oi2 in ((0, 2, 7) if tier == "quick" else range(8)):
            js.append({"id": f"O1.composite.int.{KN[k1]}.eq.{OPS[oi2]}", "func": "VerifH_C07_Index",
                       "conf": {"k0": 0, "k1": k1, "unique": 0, "op0": 0, "op1": oi2, "docs": docs, "order": 0, "cnull": 0},
                       "_obligation": "O1+O2", "unwind": 40})
            js.append({"id": f"O1.composite-unique.int.{KN[k1]}.eq.{OPS[oi2]}", "func": "VerifH_C07_Index",
                       "conf": {"k0": 0, "k1": k1, "unique": 1, "op0": 0, "op1": oi2, "docs": docs, "order": 0, "cnull": 0},
                       "_obligation": "O1+O2", "unwind": 40})
    # the indexed condition inside an _or whose other branch is on a field the index does not cover
    for oi in (0, 2, 6):
        js.append({"id": f"O1.or-branch.int.op{oi}", "func": "VerifH_C07_Index",
                   "conf": {"k0": 0, "k1": -1, "unique": 0, "op0": oi, "op1": -1, "docs": 2, "order": 0, "cnull": 0, "or": 1},
                   "_obligation": "O1", "unwind": 40})
    # order served by the index
    for order in (1, 2):
        for op0 in (-1, 2, 5, 6, 0):
            js.append({"id": f"O3.order{order}.int.op{op0}", "func": "VerifH_C07_Index",
                       "conf": {"k0": 0, "k1": -1, "unique": 0, "op0": op0, "op1": -1, "docs": 3 if tier == "thorough" else 2, "order": order, "cnull": 0},
                       "_obligation": "O3", "unwind": 40})
    js.append({"id": "twin", "func": "VerifH_C07_Reach", "conf": {}, "_obligation": "vacuity", "_expect": "twin", "_covers": ["end"]})
    return js


from props import C02 as _c02


def uniq_jobs(tier):
    js = [{"id": f"O4.unique-write.fields{n}", "func": "VerifH_C07_UniqueWrite", "conf": {"fields": n, "dag": "", "orders": "all", "shortid": 0},
           "_obligation": "O4", "_covers": ["written"], "unwind": 60} for n in (1, 2)]
    for unique in (0, 1):
        for fields in (1, 2):
            ops = (4 if fields == 1 else 3) if tier == "quick" else (5 if fields == 1 else 4)
            js.append({"id": f"O5.maintenance.unique{unique}.fields{fields}.ops{ops}", "func": "VerifH_C07_Maintenance",
                       "conf": {"unique": unique, "fields": fields, "ops": ops, "dag": "", "orders": "all", "shortid": 0},
                       "_obligation": "O5", "_covers": ["maintained"], "unwind": 80})
    return js


SYNC_PATCHES = [
    {"file": "internal/db/merge.go", "anchor": "\toldDoc, err := col.Get(oldCtx, docID, false)\n",
     "replace": "\toldDoc, err := verifSyncGet(col, oldCtx, docID, false)\n"},
    {"file": "internal/db/merge.go", "anchor": "\tdoc, err := col.Get(ctx, docID, false)\n\tisDeletedDoc :=",
     "replace": "\tdoc, err := verifSyncGet(col, ctx, docID, false)\n\tisDeletedDoc :="},
]


def sync_jobs(tier):
    return [{"id": f"O5.sync-after-merge.unique{u}", "func": "VerifH_C07_SyncAfterMerge", "conf": {"unique": u, "dag": "", "orders": "all", "shortid": 0},
             "_obligation": "O5", "_covers": ["synced"], "unwind": 80} for u in (0, 1)]


from props import C09 as _c09

OPN = ["none", "eq", "ne", "gt", "ge", "lt", "le", "in", "nin"]
DIRN = ["unordered", "asc", "desc"]


def request_jobs(tier, prop="C07"):
    """O6: whole single-collection requests through the query kernel, with and without the index, against direct evaluation"""
    js = []
    ops = (0, 1, 3, 6, 7, 8) if tier == "quick" else range(9)
    for op in ops:
        for d in (0, 1, 2):
            if tier == "quick" and d == 2 and op not in (0, 3):
                continue
            for idx in (0, 2):
                js.append({"id": f"O6.request.{OPN[op]}.{DIRN[d]}.idx{idx}", "func": "VerifH_C07_Request", "conf": {"op": op, "dir": d, "idx": idx, "n": 3, "deleted": 0},
                           "_obligation": "O6", "_covers": ["ran"], "unwind": 60})
    for d in (1, 2):
        for idx in (0, 2):
            js.append({"id": f"O6.request.show-deleted.{DIRN[d]}.idx{idx}", "func": "VerifH_C07_Request", "conf": {"op": 0, "dir": d, "idx": idx, "n": 3, "deleted": 1},
                       "_obligation": "O6", "_covers": ["ran"], "unwind": 60})
    return js


from props import C20 as _c20


def create_jobs(tier):
    return [{"id": "O7.index-created-after-the-data", "func": "VerifH_C07_IndexAfterData", "conf": {"branchable": 0, "faults": 0, "dag": "", "orders": "all", "shortid": 0, "for": "C07"},
             "_obligation": "O7", "_covers": ["indexed"], "unwind": 120, "map_order": False}]


UPDATE_REDIR = {k: v for k, v in _c20.API_REDIR.items() if not k.endswith(".updateIndexedDoc")}


def update_jobs(tier):
    return [{"id": "O8.update-keeps-the-index." + ("counter" if k else "lww"), "func": "VerifH_C07_UpdateKeepsIndex",
             "conf": {"counter": k, "branchable": 0, "faults": 0, "dag": "", "orders": "all", "shortid": 0, "for": "C07"},
             "_obligation": "O8", "_covers": ["updated"], "unwind": 120, "map_order": False} for k in (0, 1)]


PROPERTY = {
    "id": "C07",
    "suites": [
        dict(_c09.PROPERTY["suites"][0], name="request", files=["zz_verif_query.go", "zz_verif_c08q.go"], jobs=request_jobs),
        dict(_c20.SAVE_SUITE, name="indexafterdata", jobs=create_jobs, redirects=_c20.API_REDIR, files=_c20.SAVE_FILES + ["zz_verif_c20api.go", "zz_verif_c07create.go"], common=["intrinsics", "kvmodel", "dagenv", "kvtxn"]),
        dict(_c20.SAVE_SUITE, name="updateindex", jobs=update_jobs, redirects=UPDATE_REDIR, files=_c20.SAVE_FILES + ["zz_verif_c20api.go", "zz_verif_c07update.go"], common=["intrinsics", "kvmodel", "dagenv", "kvtxn"]),
        dict(_c02.SUITE, name="syncindex", jobs=sync_jobs, patches=SYNC_PATCHES,
             files=["zz_verif_env.go", "zz_verif_merge.go", "zz_verif_c07uniq.go", "zz_verif_c07maint.go"]),
        dict(_c02.SUITE, name="uniquewrite", jobs=uniq_jobs, files=["zz_verif_env.go", "zz_verif_merge.go", "zz_verif_c07uniq.go", "zz_verif_c07maint.go"]),{"name": "indexfetcher", "pkg": "internal/db/fetcher", "files": ["zz_verif_c03.go", "zz_verif_c07.go"],
                "common": ["intrinsics", "kvmodel", "dagenv"], "jobs": jobs, "unwind": 40, "witnesses": {"quick": 6, "thorough": 16},
                "overrides": {"github.com/sourcenetwork/defradb/client.CborNil": "bytes:f6"}}],
    "bounds": {"request level (O6)": "3 documents with age null or 0..3; one operator (quick: none, _eq, _gt, _le, _in, _nin; thorough: all eight) with symbolic operands; order none / ASC / DESC; with an order: limit and offset 0..2; with and without a secondary index on the field",
               "update through the collection API (O8)": "1 document, index on one field: a string field (one letter of three) or an Int pncounter (created with 0..3, incremented by 0..3); one collection.Update carrying the whole document, only the other field, or only the indexed field",
               "index maintenance (O5)": "2 documents, 1-2 indexed nullable int fields with values null or 0..3, unique or not, directions symbolic, histories of 3-4 (thorough 4-5) Save/Update/Delete calls", "documents": 2, "kinds": "int in [-128,127] (key encoding at full width is C17), float64 (thorough), string <= 2 ASCII bytes, bool (thorough); every value may be null",
               "index": "single field or 2-field composite, asc/desc per field symbolic, unique or not", "filter": "one operator per indexed field from _eq,_ne,_gt,_ge,_lt,_le,_in(2),_nin(2); constants symbolic or null"},
    "assumptions": ["index entries have the shape written by collectionBaseIndex.getDocumentsIndexKey / makeUniqueKeyValueRecord (re-stated in the read harness with the real key encoder; for unique indexes the shape is pinned against the real write kernel by O4)",
                    "the store follows the corekv iterator contract (kvmodel)", "a unique index holds no two live documents with the same non-null tuple",
                    "the document filter is re-applied after the index fetch (a superset is harmless)"],
    "outside_claim": ["index maintenance on create/update/delete/merge beyond O5 (index objects, whole documents), O7 (index filled after the data) and O8 (one update through collection.Update): longer API histories, composite and unique indexes at that level, float counters", "array and JSON indexes, _like family, relation indexes, _and/_or/_not nests",
                      "the planner's choice of index", "getDocFieldValues (client.Document field access) in front of the unique write kernel"],
}
