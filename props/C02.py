"""C02 — every update applied exactly once (walk + merge, after every delivery)."""
OVR = {"github.com/sourcenetwork/defradb/client.CborNil": "bytes:f6",
       "github.com/sourcenetwork/defradb/internal/core/block.BlockSchemaPrototype": "opaque"}
REDIR = {
    "(*github.com/ipld/go-ipld-prime/linking.LinkSystem).Load": "vLoad",
    "github.com/sourcenetwork/defradb/internal/core/block.GetFromNode": "vGetFromNode",
    "(*github.com/sourcenetwork/defradb/internal/core/block.Block).GenerateLink": "vGenerateLink",
    "github.com/sourcenetwork/defradb/internal/db.loadBlockFromBlockStore": "vLoadBlockFromBlockStore",
}
KF = "C02-unequal-head-heights"


SHAPES = {
    # fixed DAG families beyond the exhaustive bound (parents per commit)
    "two-chains-3-2": "-|0|1|2|0|4",          # c0; A: c1<-c2<-c3; B: c4<-c5
    "two-chains-2-2-merge": "-|0|1|0|3|2,4",    # two branches of length 2 joined by a merge commit
    "diamond-tail": "-|0|0|1,2|3|1",            # diamond c3(c1,c2), tail c4, late fork c5 on c1
    "three-branches": "-|0|1|0|0|4",            # heads of heights 3,2,3
    # a long and a short branch joined by a merge commit, then a late commit on the short branch: the walk back
    # from the merge commit passes three generations before it meets the late commit's parent again
    "long-short-merge-late-fork": "-|0|1|2|3|0|4,5|5",
    # double diamond: two blocks of the same height, each reachable through two paths
    "double-diamond": "-|0|0|1,2|1,2|3,4",
}


def merge_jobs(tier, prop="C02"):
    js = []
    L = 3
    for kind, kn, n in ((1, "counter", 4), (0, "register", 3 if tier == "quick" else 4)):
        js.append({"id": f"deliver.{kn}.n{n}", "func": "VerifH_C02_Deliver",
                   "conf": {"n": n, "kind": kind, "del": -1, "deliveries": L, "hasfield": 1, "class": 2, "dag": "", "orders": "all", "shortid": 0, "for": "C02", "fieldmask": 0},
                   "_obligation": "O1-O3", "_covers": ["delivered"], "unwind": 40, "_maporder_replay": True, "reset_mode": True})
    n = 3 if tier == "quick" else 4
    js.append({"id": f"deliver.counter.n{n}.delete-last", "func": "VerifH_C02_Deliver",
               "conf": {"n": n, "kind": 1, "del": n - 1, "deliveries": L, "hasfield": 1, "class": 2, "dag": "", "orders": "all", "shortid": 0, "for": "C02", "fieldmask": 0},
               "_obligation": "O1-O3", "_covers": ["delivered"], "unwind": 40, "_maporder_replay": True, "reset_mode": True})
    for sn, dag in SHAPES.items():
        for kind, kn in ((1, "counter"),) if tier == "quick" else ((1, "counter"), (0, "register")):
            js.append({"id": f"deliver.{kn}.{sn}", "func": "VerifH_C02_Deliver",
                       "conf": {"n": dag.count("|") + 1, "kind": kind, "del": -1,
                                "deliveries": (2 if dag.count("|") >= 7 else 3) if tier == "quick" else (3 if dag.count("|") >= 7 else 4), "hasfield": 1, "class": 2,
                                "dag": dag, "orders": "two", "shortid": 0, "for": "C02", "fieldmask": 0},
                       "_obligation": "O1-O3", "_covers": ["delivered"], "unwind": 60, "reset_mode": True})
    js.append({"id": "twin", "func": "VerifH_C02_Reach", "conf": {"dag": "", "orders": "all", "shortid": 0, "for": "C02", "fieldmask": 0}, "_obligation": "vacuity", "_expect": "twin", "_covers": ["end"]})
    return js


SUITE = {"name": "merge", "pkg": "internal/db", "files": ["zz_verif_env.go", "zz_verif_merge.go"], "common": ["intrinsics", "kvmodel", "dagenv"],
         "jobs": merge_jobs, "overrides": OVR, "redirects": REDIR, "unwind": 40, "witnesses": {"quick": 12, "thorough": 32},
         "timeout": {"quick": 2400, "thorough": 10000}}

def nonce_jobs(tier):
    return [{"id": "O4.counter-nonce", "func": "VerifH_C02_CounterNonce", "conf": {}, "_obligation": "O4", "_covers": ["made"]}]


NONCE_SUITE = {"name": "nonce", "pkg": "internal/core/crdt", "files": ["zz_verif_crdt.go", "zz_verif_nonce.go"], "common": ["intrinsics", "kvmodel"],
               "jobs": nonce_jobs, "overrides": OVR, "redirects": {"(github.com/sourcenetwork/defradb/client.FieldValue).Bytes": "nFieldValueBytes"}, "unwind": 14}

PROPERTY = {
    "id": "C02",
    "suites": [SUITE, NONCE_SUITE],
    "bounds": {"quick": {"commits": 3, "parents per commit": "<=2", "deliveries (incl. redelivery)": 3, "fields per commit": 1, "hash orders": "all n!"},
               "thorough": {"commits": 4, "parents per commit": "<=2", "deliveries (incl. redelivery)": 3, "fields per commit": 1, "hash orders": "all n!"},
               "fixed histories": "two chains 3+2, two chains joined by a merge, diamond with tail and late fork, three branches, double diamond (6 commits, 3-4 deliveries, symbolic increments), long and short branch joined with a late fork (8 commits, 2-3 deliveries, increments fixed to powers of three); identity and reversed hash order"},
    "assumptions": ["dag-cbor round-trips a Block and a block's link is a function of its content (blocks live in a table inside the solver run; natively they are really encoded and stored)",
                    "kvmodel follows the corekv contract", "every commit writes the one field (field clock mirrors the composite clock), except where a job restricts the writers (conf fieldmask)", "how often a block sits in the walk queue is not asserted; once-only application is asserted on the counter value", "no commit descends from a delete commit"],
    "outside_claim": ["more than one document / field per commit", "index maintenance after merge", "net layer redelivery, merge queue, retries"],
}
