"""C18 (numeric fidelity only) — export followed by import preserves numbers."""
KF = "C18-int-above-2p53"


def jobs(tier):
    return [
        {"id": "O.int.exact-range", "func": "VerifH_C18_Int", "conf": {"class": 0}, "_obligation": "O", "_covers": ["converted"]},
        {"id": "O.int.above-2p53", "func": "VerifH_C18_Int", "conf": {"class": 1}, "_obligation": "O", "_covers": ["converted"],
         "_expect": "known:" + KF, "_known_labels": ["int-preserved"]},
        {"id": "O.float64", "func": "VerifH_C18_Float64", "conf": {}, "_obligation": "O", "_covers": ["converted"]},
        {"id": "O.float32", "func": "VerifH_C18_Float32", "conf": {}, "_obligation": "O", "_covers": ["converted"]},
        {"id": "twin", "func": "VerifH_C18_Reach", "conf": {}, "_obligation": "vacuity", "_expect": "twin", "_covers": ["end"]},
    ]


PROPERTY = {
    "id": "C18",
    "suites": [{"name": "client", "pkg": "client", "files": ["zz_verif_c18.go"], "jobs": jobs}],
    "bounds": {"int64": "full width (split at |x| = 2^53)", "float64/float32": "full width, non-NaN"},
    "assumptions": ["export writes the exact decimal of an int64 and the shortest round-tripping decimal of a float (encoding/json)",
                    "json.Decoder without UseNumber returns the correctly rounded (RNE) float64 of a decimal"],
    "outside_claim": ["relations and the id mapping, blobs/JSON/arrays/datetimes, atomicity of import, re-export equality"],
}
