"""C05 — mutations are all-or-nothing under storage faults (kernel level): every storage failure is propagated
as an error by every function on the mutation path (O1), no-fault runs succeed (O2), callbacks run iff commit (O3)."""
from props import C20 as _c20
from props import C02 as _c02
OVR = {"github.com/sourcenetwork/defradb/client.CborNil": "bytes:f6"}
OPS = ["lww", "lww-deleted", "counter", "composite-delete", "composite-active"]


def crdt_jobs(tier):
    js = []
    for i, name in enumerate(OPS):
        js.append({"id": f"O1.crdt.{name}", "func": "VerifH_C05_CRDTFaults", "conf": {"op": i, "window": 16},
                   "_obligation": "O1+O2", "_covers": ["ran"], "unwind": 24})
    return js


def head_jobs(tier):
    names = ["processblock-child-of-head", "processblock-genesis", "processblock-new-concurrent-head", "heads-list"]
    return [{"id": f"O1.heads.{nm}", "func": "VerifH_C05_HeadFaults", "conf": {"op": i, "window": 14},
             "_obligation": "O1+O2", "_covers": ["ran"], "unwind": 30} for i, nm in enumerate(names)]


def merge_jobs(tier):
    return [{"id": f"O1.merge.{kn}", "func": "VerifH_C05_MergeFaults",
             "conf": {"kind": k, "window": 60, "dag": "-|0", "orders": "two", "shortid": 0}, "_obligation": "O1+O2", "_covers": ["ran"],
             "unwind": 120, "reset_mode": True} for k, kn in ((1, "counter"), (0, "register"))]


def ensure_jobs(tier):
    return [{"id": "O1.save-collection-again", "func": "VerifH_C05_SaveCollectionFaults", "conf": {"branchable": 0, "faults": 0, "dag": "", "orders": "all", "shortid": 0, "for": "C05"},
             "_obligation": "O1", "_covers": ["saved-again"], "unwind": 80}] + [{"id": f"O3.ensure-context-txn.kind{k}", "func": "VerifH_C05_EnsureTxn", "conf": {"ctxkind": k, "dag": "", "orders": "all", "shortid": 0},
             "_obligation": "O3", "_covers": ["ensured"], "unwind": 40} for k in (0, 1, 2, 3)]


def save_jobs(tier):
    return [{"id": f"O1.save.branchable{b}", "func": "VerifH_S1_Save", "conf": {"branchable": b, "faults": 80, "dag": "", "orders": "all", "shortid": 0, "for": "C05"},
             "_obligation": "O1+O2", "_covers": ["faulted"], "unwind": 160} for b in (0, 1)]


def api_jobs(tier):
    return [{"id": f"O4.api.{nm}.branchable{b}", "func": "VerifH_C05_ApiFaults",
             "conf": {"api": i, "branchable": b, "window": 120, "faults": 0, "dag": "", "orders": "all", "shortid": 0, "for": "C05"},
             "_obligation": "O4", "_covers": ["called"], "unwind": 200} for i, nm in enumerate(("create", "update", "delete")) for b in ((0,) if tier == "quick" else (0, 1))]


def index_jobs(tier):
    return [{"id": f"O1.index.unique{u}.{nm}", "func": "VerifH_C05_IndexFaults", "conf": {"unique": u, "op": i, "window": 12, "dag": "", "orders": "all", "shortid": 0},
             "_obligation": "O1", "_covers": ["ran"], "unwind": 60} for u in (0, 1) for i, nm in enumerate(("save", "update", "delete"))]


def fetch_jobs(tier):
    return [{"id": f"O1.fetch.n{n}", "func": "VerifH_C05_FetchFaults", "conf": {"n": n, "window": 24, "dag": "", "orders": "all", "shortid": 0},
             "_obligation": "O1", "_covers": ["ran"], "unwind": 60} for n in ((2,) if tier == "quick" else (2, 3))]


def seq_jobs(tier):
    return [{"id": "O1.sequence", "func": "VerifH_C14_FaultPropagation", "conf": {}, "_obligation": "O1+O2", "_covers": ["ran"]}]


def txn_jobs(tier):
    return [j for j in _c20.txn_jobs(tier)]


PROPERTY = {
    "id": "C05",
    "suites": [
        {"name": "crdt", "pkg": "internal/core/crdt", "files": ["zz_verif_crdt.go"], "common": ["intrinsics", "kvmodel"],
         "jobs": crdt_jobs, "overrides": OVR, "unwind": 24},
        {"name": "block", "pkg": "internal/core/block", "files": ["zz_verif_block.go"], "common": ["intrinsics", "kvmodel"],
         "jobs": head_jobs, "overrides": OVR, "unwind": 30},
        dict(_c02.SUITE, name="merge", jobs=merge_jobs),
        dict(_c20.SAVE_SUITE, name="save", jobs=save_jobs),
        dict(_c20.SAVE_SUITE, name="api", jobs=api_jobs, redirects=_c20.API_REDIR, files=_c20.SAVE_FILES + ["zz_verif_c20api.go"], common=["intrinsics", "kvmodel", "dagenv", "kvtxn"]),
        dict(_c02.SUITE, name="ensuretxn", jobs=ensure_jobs, files=["zz_verif_env.go", "zz_verif_merge.go", "zz_verif_c07uniq.go", "zz_verif_save.go", "zz_verif_c05txn.go"]),
        dict(_c02.SUITE, name="index", jobs=index_jobs, files=["zz_verif_env.go", "zz_verif_merge.go", "zz_verif_c07uniq.go", "zz_verif_c07maint.go"]),
        {"name": "fetch", "pkg": "internal/db/fetcher", "files": ["zz_verif_c03.go", "zz_verif_c07.go", "zz_verif_c05fetch.go"],
         "common": ["intrinsics", "kvmodel", "dagenv"], "jobs": fetch_jobs, "unwind": 60, "overrides": {"github.com/sourcenetwork/defradb/client.CborNil": "bytes:f6"}},
        {"name": "sequence", "pkg": "internal/db/sequence", "files": ["zz_verif_c14.go"], "common": ["intrinsics", "kvmodel"], "jobs": seq_jobs},
        {"name": "txn", "pkg": "internal/datastore", "files": ["zz_verif_txn.go"], "common": ["intrinsics", "kvmodel"], "jobs": txn_jobs},
    ],
    "bounds": {"faults per call": "<=2 among the first 16 store operations (every kernel issues fewer; asserted)", "fault kinds": "get/set/delete/has/iterator/next/value/close/commit returning an error"},
    "assumptions": ["kvmodel with a symbolic fault schedule stands for the store; the real stores are not executed",
                    "atomicity of an API call then follows from ensureContextTxn/defer Discard/commit-on-success (checked: callbacks iff commit)"],
    "outside_claim": ["the API-level statement over documents, schema, index create/drop, import (planner / GraphQL paths); secondary index maintenance is covered at the kernel level only (Save / Update / Delete of one index)"],
}
