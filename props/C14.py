"""C14 (thin) — identifiers from persisted sequences are never reused across a restart."""


def jobs(tier):
    return [
        {"id": "O.no-reuse", "func": "VerifH_C14_NoReuse", "conf": {}, "_obligation": "O", "_covers": ["restarted"]},
        {"id": "twin", "func": "VerifH_C14_Reach", "conf": {}, "_obligation": "vacuity", "_expect": "twin", "_covers": ["end"]},
    ]


from props import C15 as _c15


def routing_jobs(tier):
    """O2: the routing table of update events that a restarted peer rebuilds from the persisted replicator records is the one
    a never-restarted twin has (both equal what was last configured)"""
    calls = 2 if tier == "quick" else 3
    return [{"id": f"O2.replicator-routing.calls{calls}.restart{r}", "func": "VerifH_C15_Routing", "conf": {"calls": calls, "restart": r, "nested": 0},
             "_obligation": "O2", "_covers": ["configured"], "map_order": True, "unwind": 24} for r in (0, 1)]


from props import C20 as _c20


def nac_jobs(tier):
    return [{"id": f"O3.nac-restart.calls{n}", "func": "VerifH_C14_NACRestart", "conf": {"calls": n, "branchable": 0, "faults": 0, "dag": "", "orders": "all", "shortid": 0, "for": "C14"},
             "_obligation": "O3", "_covers": ["restarted"], "unwind": 60} for n in ((1, 2) if tier == "quick" else (1, 2, 3, 4))]


PROPERTY = {
    "id": "C14",
    "suites": [{"name": "sequence", "pkg": "internal/db/sequence", "files": ["zz_verif_c14.go"], "common": ["intrinsics", "kvmodel"], "jobs": jobs},
               dict(_c15.PROPERTY["suites"][0], name="routing", jobs=routing_jobs),
               dict(_c20.SAVE_SUITE, name="nac", jobs=nac_jobs, redirects=_c20.API_REDIR, files=_c20.SAVE_FILES + ["zz_verif_c20api.go", "zz_verif_c10api.go", "zz_verif_c14nac.go"], common=["intrinsics", "kvmodel", "dagenv", "kvtxn"])],
    "bounds": {"node access control (O3)": "configured and enabled node, 1-2 (thorough 1-4) DisableNAC / ReEnableNAC calls by the node's own identity, restart with either start-command setting; json of the description is a box",
               "replicator routing (O2)": "2 replicators, 2 collections, 2 (thorough 3) configuration steps, then a restart (new server, loadAndPublishReplicators) or none", "stored counter": "any uint64 < 2^63 or absent", "Next calls before restart": "<= 3", "Next calls after restart": "1..3"},
    "assumptions": ["the system store behaves like the documented corekv contract (kvmodel)", "restart = a new Sequence object over the same store content"],
    "outside_claim": ["everything else in the statement: descriptions, indexes, schema, p2p collection subscriptions are rebuilt from GraphQL/JSON/CBOR state; crash points inside badger"],
}
