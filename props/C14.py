"""C14 (thin) — identifiers from persisted sequences are never reused across a restart."""


def jobs(tier):
    return [
        {"id": "O.no-reuse", "func": "VerifH_C14_NoReuse", "conf": {}, "_obligation": "O", "_covers": ["restarted"]},
        {"id": "twin", "func": "VerifH_C14_Reach", "conf": {}, "_obligation": "vacuity", "_expect": "twin", "_covers": ["end"]},
    ]


PROPERTY = {
    "id": "C14",
    "suites": [{"name": "sequence", "pkg": "internal/db/sequence", "files": ["zz_verif_c14.go"], "common": ["intrinsics", "kvmodel"], "jobs": jobs}],
    "bounds": {"stored counter": "any uint64 < 2^63 or absent", "Next calls before restart": "<= 3", "Next calls after restart": "1..3"},
    "assumptions": ["the system store behaves like the documented corekv contract (kvmodel)", "restart = a new Sequence object over the same store content"],
    "outside_claim": ["everything else in the statement: descriptions, indexes, schema, peers are rebuilt from GraphQL/JSON/CBOR state; crash points inside badger"],
}
