"""C16 (thin) — lock discipline of the concurrent transaction wrapper."""
STORES = ["data", "head", "system", "peer", "root"]
OPS = ["Get", "Set", "Has", "Delete", "Iterator"]


def jobs(tier):
    js = []
    for si, s in enumerate(STORES):
        for oi, o in enumerate(OPS):
            js.append({"id": f"O.lock.{s}.{o}", "func": "VerifH_C16_LockDiscipline", "conf": {"store": si, "op": oi},
                       "_obligation": "O", "_covers": ["accessed"]})
    js.append({"id": "O.write-visible", "func": "VerifH_C16_WriteVisible", "conf": {}, "_obligation": "O", "_covers": ["accessed"]})
    return js


PROPERTY = {
    "id": "C16",
    "suites": [{"name": "datastore", "pkg": "internal/datastore", "files": ["zz_verif_txn.go"], "common": ["intrinsics", "kvmodel"], "jobs": jobs}],
    "bounds": {"stores": STORES, "operations": OPS, "keys/values": "one symbolic byte each"},
    "assumptions": ["sync.Mutex is modelled as ghost state (single-threaded execution): the check is the sufficient condition 'every root-transaction access happens with the wrapper mutex held', not an exploration of interleavings"],
    "outside_claim": ["data races / lost effects under real interleavings (thread schedules are not explored by this technique)", "block and enc stores (they run through the same wrapped root transaction)", "Commit/Discard concurrent with other calls", "merge queue, replicator map, event bus goroutines"],
}
