"""C16 — lock discipline of the concurrent transaction wrapper (O), the merge queue under every bounded goroutine schedule (O2),
two goroutines sharing one concurrent transaction under the happens-before race detector of the symbolic run (O3)."""
STORES = ["data", "head", "system", "peer", "root"]
OPS = ["Get", "Set", "Has", "Delete", "Iterator"]


def jobs(tier):
    js = []
    for si, s in enumerate(STORES):
        for oi, o in enumerate(OPS):
            js.append({"id": f"O.lock.{s}.{o}", "func": "VerifH_C16_LockDiscipline", "conf": {"store": si, "op": oi},
                       "_obligation": "O", "_covers": ["accessed"]})
    js.append({"id": "O3.shared-txn.two-goroutines", "func": "VerifH_C16_SharedTxn", "conf": {"preempt": 1 if tier == "quick" else 2},
               "_obligation": "O3", "_covers": ["accessed"], "_schedule_replay": True})
    js.append({"id": "O.write-visible", "func": "VerifH_C16_WriteVisible", "conf": {}, "_obligation": "O", "_covers": ["accessed"]})
    return js


def mq_jobs(tier):
    js = []
    for n, pre in ([(2, 2), (3, 0), (3,1), (4,0)] if tier == "quick" else [(2, 3), (3, 2), (4, 0)]):
        js.append({"id": f"O2.merge-queue.threads{n}.preempt{pre}", "func": "VerifH_C16_MergeQueue", "conf": {"threads": n, "preempt": pre},
                   "_obligation": "O2", "_covers": ["all-threads-finished"], "_schedule_replay": True})
    return js


def bus_jobs(tier):
    return [{"id": f"O4.bus.two-publishers.unsub{u}.preempt{pre}", "func": "VerifH_C16_BusThreads", "conf": {"unsub": u, "preempt": pre},
             "_obligation": "O4", "_covers": ["closed"], "_schedule_replay": True, "unwind": 40}
            for u in (0, 1) for pre in ((1,) if tier == "quick" else (1, 2))]


from props import C15 as _c15


def repmap_jobs(tier):
    return [{"id": f"O5.replicator-table.push-vs-configure.preempt{pre}", "func": "VerifH_C16_ReplicatorMap", "conf": {"preempt": pre, "calls": 0, "restart": 0, "nested": 0},
             "_obligation": "O5", "_covers": ["ran"], "_schedule_replay": True, "unwind": 40} for pre in ((1,) if tier == "quick" else (1, 2))]


PROPERTY = {
    "id": "C16",
    "suites": [{"name": "datastore", "pkg": "internal/datastore", "files": ["zz_verif_txn.go"], "common": ["intrinsics", "kvmodel"], "jobs": jobs},
               dict(_c15.PROPERTY["suites"][0], name="replicatortable", jobs=repmap_jobs),
               {"name": "bus", "pkg": "event", "files": ["zz_verif_c20.go"], "common": ["intrinsics"], "jobs": bus_jobs, "unwind": 40},
               {"name": "mergequeue", "pkg": "internal/db", "files": ["zz_verif_c16mq.go"], "common": ["intrinsics"], "jobs": mq_jobs}],
    "bounds": {"stores": STORES, "operations": OPS, "keys/values": "one symbolic byte each",
               "goroutine schedules (O2, O3)": "interpreted goroutines run one at a time; a switch happens where a goroutine blocks, ends or yields (vYield, Gosched, Sleep) and, up to the job's preemption budget (0-2 quick, up to 3 thorough), before a mutex acquire, after a release, at a channel operation and at a go statement; every such schedule is explored (each choice is a logged decision of the path)",
               "O2 merge queue": "2 goroutines (2 preemptions), 3 (0 and 1), 4 (0); documents chosen by the solver among two",
               "O5 replicator table": "1 goroutine pushing an update event of the first collection, 1 goroutine configuring the second replicator for any subset of the two collections; 1 preemption (thorough 2); libp2p host and block service are no-op fakes, the per-peer push goroutines are deferred (source patch shared with C15)",
               "O4 event bus": "the real bus goroutine, 1 subscriber, 2 publishing goroutines (1 message each), optionally 1 unsubscribing goroutine, then Close; 1 preemption (thorough 2); buffers of 4",
               "O3 shared transaction": "2 goroutines, 1 operation each (Set / Get / Has / Iterator+Next+Close) through any of 7 store accessors (data, head, system, peer, root, the store beneath the block store, the store beneath the key store), then a read-back; 1 preemption (thorough 2)"},
    "assumptions": ["O: sync.Mutex is ghost state; the obligation is the sufficient condition 'every root-transaction access happens with the wrapper mutex held'",
                    "O2/O3: sequentially consistent interleaving at synchronisation operations; happens-before edges from mutexes, channels (send->receive, close->receive, receive->send completion on unbuffered channels), WaitGroup, Once, atomics and go statements; the data-race detector watches every load, store and map operation executed by the interpreter (accesses made inside engine-side models of library functions are not watched: a race there is missed, none is invented)",
                    "O3: the root transaction is not safe for concurrent use (kvmodel counts every operation in an unsynchronised field), as a badger transaction is not",
                    "schedule-dependent counterexamples are replayed natively by repetition (random pauses at the yield points, go test -race for data races): the goroutine schedule cannot be forced natively"],
    "outside_claim": ["weak-memory effects and preemption between two plain memory accesses (a data race is reported by the happens-before detector instead)", "more goroutines / preemptions than the bounds", "Commit/Discard concurrent with other calls", "db.handleMessages as a whole (its merge goroutines run executeMerge: planner, transactions)", "requests, collection operations and index changes issued concurrently against a whole node"],
}
