"""C12 — commit signatures authenticate content and author (protocol logic under ideal signatures)."""
REDIR = {
    "github.com/sourcenetwork/defradb/internal/core/block.putBlock": "sPutBlock",
    "(*github.com/ipld/go-ipld-prime/linking.LinkSystem).Load": "sLoad",
    "github.com/sourcenetwork/defradb/internal/core/block.GetSignatureBlockFromNode": "sGetSignatureBlockFromNode",
    "github.com/sourcenetwork/defradb/crypto.PublicKeyFromString": "sPublicKeyFromString",
}
OVR = {"github.com/sourcenetwork/defradb/client.CborNil": "bytes:f6",
       "github.com/sourcenetwork/defradb/internal/core/block.SignatureSchemaPrototype": "opaque",
       "github.com/sourcenetwork/defradb/internal/core/block.SignatureSchema": "opaque",
       "github.com/sourcenetwork/defradb/internal/core/block.BlockSchema": "opaque"}
TAMPER = ["delta", "priority", "docid", "schema-version", "head-replaced", "head-added", "heads-removed", "link-target", "link-name",
          "links-removed", "encryption-replaced", "encryption-removed"]


def jobs(tier):
    js = []
    for key, kn in ((0, "ed25519"), (1, "secp256k1")):
        for kind, kdn in ((0, "composite"), (1, "field")):
            js.append({"id": f"O1.honest.{kn}.{kdn}", "func": "VerifH_C12_SignVerify", "conf": {"key": key, "kind": kind, "tamper": -1},
                       "_obligation": "O1+O4", "_covers": ["verified"], "unwind": 60})
            if tier == "quick" and key == 1:
                continue
            for t, tn in enumerate(TAMPER):
                js.append({"id": f"O2.tamper.{kn}.{kdn}.{tn}", "func": "VerifH_C12_SignVerify", "conf": {"key": key, "kind": kind, "tamper": t},
                           "_obligation": "O2", "_covers": ["verified"], "unwind": 60})
    js.append({"id": "twin", "func": "VerifH_C12_Reach", "conf": {}, "_obligation": "vacuity", "_expect": "twin", "_covers": ["end"]})
    return js


PROPERTY = {
    "id": "C12",
    "suites": [{"name": "signature", "pkg": "internal/core/block", "files": ["zz_verif_block.go", "zz_verif_c12.go"], "common": ["intrinsics", "kvmodel"],
                "jobs": jobs, "redirects": REDIR, "overrides": OVR, "unwind": 60, "witnesses": {"quick": 4, "thorough": 8}}],
    "bounds": {"block": "one composite or one field block with one parent, one field link and an encryption link; symbolic priority < 1000 and data byte",
               "tampering": "each single-field change of the signed block from the list " + ", ".join(TAMPER), "keys": "ed25519 and secp256k1 (natively real keys)"},
    "assumptions": ["ideal signatures inside the solver run: Sig(sk,m) verifies exactly under pub(sk) and for exactly m", "the block codec is injective (canonical serialisation model of marshalNode)",
                    "natively (witness validation, replay): real keys, real dag-cbor, real blockstore"],
    "outside_claim": ["the mathematics of secp256k1/ed25519, dag-cbor bytes", "net.loadBlockLinks / syncDAG (network, goroutines)", "tampering of the stored signature block itself (addressed by content hash)"],
}
