"""C09 — relations read the same from both sides: the real request pipeline below the GraphQL parser (mapper.ToSelect, Planner.Select,
optimizePlan with join inversion, the type-join nodes, scan nodes and the fetcher stack) over symbolic documents in the key-value model."""

REDIR = {"github.com/sourcenetwork/defradb/internal/lens.NewFetcher": "qNoLens"}
QN = {0: "parent-lists-children", 1: "child-shows-parent", 2: "parents-by-child-filter", 3: "parents-by-two-child-conditions",
      4: "parents-by-child-filter-with-children", 5: "children-by-parent-filter"}


def jobs(tier):
    js = []
    for q in QN:
        for idx in (0, 1):
            nd = 2 if tier == "quick" else 3
            js.append({"id": f"O1.one-to-many.{QN[q]}.idx{idx}.devices{nd}", "func": "VerifH_C09_OneToMany", "conf": {"q": q, "idx": idx, "devices": nd},
                       "_obligation": "O1", "_covers": ["ran"], "unwind": 60})
    return js


PROPERTY = {
    "id": "C09",
    "suites": [{"name": "query", "pkg": "internal/planner", "files": ["zz_verif_query.go"], "common": ["intrinsics", "kvmodel"], "jobs": jobs,
                "redirects": REDIR, "unwind": 60, "witnesses": {"quick": 12, "thorough": 32}}],
    "bounds": {"parents": 2, "children": "2 (thorough 3), each owned by either parent or by none", "values": "age, year, filter constant: any int8; model: one of two strings",
               "queries": "six request shapes (see the harness), each with and without a secondary index on Device.year (with the index the planner inverts the join for the relation filters)"},
    "assumptions": ["collection definitions as db.AddSchema produces them for the SDL in the harness (captured natively once)", "documents and index entries are stored as collection.save / the index writers leave them (C07.O5 checks the writers)",
                    "cbor of field values is a model (integers, short strings, null); lens.NewFetcher is the identity (no migrations registered)", "the store follows the corekv contract (kvmodel)"],
    "outside_claim": ["the GraphQL parser (requests are hand-built request.Select values)", "one-to-one relations, ordering / limits / aggregates through a relation, grouping", "the write-side rule that a one-to-one link is held by one document at a time",
                      "more than 2 parents / 3 children, relations deeper than one level"],
}
