"""C09 — relations read the same from both sides: the real request pipeline below the GraphQL parser (mapper.ToSelect, Planner.Select,
optimizePlan with join inversion, the type-join nodes, scan nodes and the fetcher stack) over symbolic documents in the key-value model."""

KF = "C09-order-through-relation-drops-parentless"
KF2 = "C09-filtered-count-next-to-relation-filter"
KF3 = "C09-relation-filter-sees-limited-children"
REDIR = {"github.com/sourcenetwork/defradb/internal/lens.NewFetcher": "qNoLens"}
QN = {0: "parent-lists-children", 1: "child-shows-parent", 2: "parents-by-child-filter", 3: "parents-by-two-child-conditions",
      4: "parents-by-child-filter-with-children", 5: "children-by-parent-filter", 6: "parents-by-child-filter-with-ordered-children",
      7: "parents-by-child-filter-with-count", 8: "parents-by-child-filter-ordered", 9: "parent-lists-ordered-children",
      10: "children-by-own-and-parent-filter", 11: "children-ordered-by-parent-field", 12: "parents-by-child-filter-with-filtered-count",
      13: "parents-by-child-filter-with-limited-children"}


def jobs(tier):
    js = []
    for q in QN:
        for idx in (0, 1, 2, 3):
            if idx >= 2 and q not in (5, 8, 10, 11):
                continue
            nd = 2 if tier == "quick" else 3
            if q == 11 and idx >= 2:
                # the join is inverted by the order: children without a parent are dropped (known finding, D38)
                js.append({"id": f"O1.one-to-many.{QN[q]}.idx{idx}.devices{nd}.every-child-has-a-parent", "func": "VerifH_C09_OneToMany",
                           "conf": {"q": q, "idx": idx, "devices": nd, "class": 0}, "_obligation": "O1", "_covers": ["ran"], "unwind": 60})
                js.append({"id": f"O1.one-to-many.{QN[q]}.idx{idx}.devices{nd}.some-child-has-no-parent", "func": "VerifH_C09_OneToMany",
                           "conf": {"q": q, "idx": idx, "devices": nd, "class": 1}, "_obligation": "O1", "_covers": ["ran"], "unwind": 60,
                           "_expect": "known:" + KF, "_known_labels": ["children-with-a-matching-parent-appear-once-each"]})
                continue
            j = {"id": f"O1.one-to-many.{QN[q]}.idx{idx}.devices{nd}", "func": "VerifH_C09_OneToMany", "conf": {"q": q, "idx": idx, "devices": nd, "class": 2},
                 "_obligation": "O1", "_covers": ["ran"], "unwind": 60}
            if q == 13:
                # the relation filter is evaluated on the limited list of related documents (known finding, D41)
                j["_expect"] = "known:" + KF3
                j["_known_labels"] = ["parent-with-a-matching-child-appears-once"]
            if q == 12 and idx & 1:
                # a filtered _count next to a relation filter on an indexed child field: the count is too small (known finding, D40);
                # every other assertion of the job stays in force
                j["_expect"] = "known:" + KF2
                j["_known_labels"] = ["count-through-the-relation-is-the-number-of-related-documents"]
            js.append(j)
    ON = {0: "secondary-shows-related", 1: "primary-shows-related", 2: "parents-by-related-filter", 3: "primary-by-related-filter", 4: "parents-by-related-filter-with-related"}
    for q in ON:
        for idx in (0, 1, 2, 3):
            if idx >= 2 and q != 3:
                continue
            js.append({"id": f"O2.one-to-one.{ON[q]}.idx{idx}", "func": "VerifH_C09_OneToOne", "conf": {"q": q, "idx": idx},
                       "_obligation": "O2", "_covers": ["ran"], "unwind": 60})
    return js


PROPERTY = {
    "id": "C09",
    "suites": [{"name": "query", "pkg": "internal/planner", "files": ["zz_verif_query.go"], "common": ["intrinsics", "kvmodel"], "jobs": jobs,
                "redirects": REDIR, "unwind": 60, "witnesses": {"quick": 12, "thorough": 32}}],
    "bounds": {"parents": 2, "children": "2 (thorough 3), each owned by either parent or by none", "one-to-one": "2 users, 2 addresses (city one of two strings) pointing to different users or to none", "values": "age, year in 0..3, filter constant in -1..2 (every order relation between them; the key encodings of other magnitudes are C17's subject); model: one of two strings",
               "queries": "ten one-to-many and five one-to-one request shapes (see the harness), each with every relevant combination of secondary indexes on Device.year / Address.city and User.age (with an index on the filtered field of the related collection the planner inverts the join)"},
    "assumptions": ["collection definitions as db.AddSchema produces them for the SDL in the harness (captured natively once)", "documents and index entries are stored as collection.save / the index writers leave them (C07.O5 checks the writers)",
                    "cbor of field values is a model (integers, short strings, null); lens.NewFetcher is the identity (no migrations registered)", "the store follows the corekv contract (kvmodel)"],
    "outside_claim": ["the GraphQL parser (requests are hand-built request.Select values)", "limits and aggregates other than _count through a relation, ordering parents by a field of the related collection, grouping", "the write-side rule that a one-to-one link is held by one document at a time",
                      "more than 2 parents / 3 children, relations deeper than one level"],
}
