"""C10 — unreadable documents are invisible (fetch path kernel)."""


def jobs(tier):
    js = []
    for n in ((2, 3) if tier == "quick" else (2, 3, 4)):
        for policy in (0, 1):
            for ident in (0, 1):
                js.append({"id": f"O1.stream.n{n}.policy{policy}.identity{ident}", "func": "VerifH_C10_Stream",
                           "conf": {"n": n, "policy": policy, "identity": ident}, "_obligation": "O1+O2", "_covers": ["streamed"], "unwind": 30})
    for n in ((1, 2) if tier == "quick" else (1, 2, 3)):
        js.append({"id": f"O3.show-deleted.n{n}", "func": "VerifH_C10_ShowDeleted", "conf": {"n": n}, "_obligation": "O3", "_covers": ["fetched"], "unwind": 60})
    for n in ((2,) if tier == "quick" else (2, 3)):
        for deleted in (0, 1):
            js.append({"id": f"O3.stack.n{n}.show-deleted{deleted}", "func": "VerifH_C10_Stack", "conf": {"n": n, "deleted": deleted},
                       "_obligation": "O3", "_covers": ["fetched"], "unwind": 80})
    js.append({"id": "O2.no-caching", "func": "VerifH_C10_NoCaching", "conf": {}, "_obligation": "O2", "_covers": ["ran"]})
    js.append({"id": "twin", "func": "VerifH_C10_Reach", "conf": {}, "_obligation": "vacuity", "_expect": "twin", "_covers": ["end"]})
    return js


from props import C09 as _c09

RQ = {0: "order-limit", 1: "filter", 2: "parent-lists-children", 3: "child-shows-parent", 4: "parents-by-child-filter", 5: "count-through-relation",
      6: "children-by-parent-filter", 7: "ordered-list"}


def request_jobs(tier):
    js = []
    for q in RQ:
        for private in (0, 1):
            for idx in ((0, 3) if tier == "quick" else (0, 1, 2, 3)):
                js.append({"id": f"O4.request.{RQ[q]}.private-{'device' if private else 'user'}.idx{idx}", "func": "VerifH_C10_Request",
                           "conf": {"q": q, "idx": idx, "private": private}, "_obligation": "O4", "_covers": ["ran", "access-control-consulted"], "unwind": 60})
    return js


from props import C20 as _c20


def write_jobs(tier):
    return [{"id": f"O5.write-denied.branchable{b}", "func": "VerifH_C10_WriteDenied", "conf": {"branchable": b, "faults": 0, "dag": "", "orders": "all", "shortid": 0, "for": "C10"},
             "_obligation": "O5", "_covers": ["attempted"], "unwind": 80} for b in ((0,) if tier == "quick" else (0, 1))]


from props import C03 as _c03


def history_jobs(tier):
    return [{"id": f"O6.commit-history.{nm}", "func": "VerifH_C10_CommitHistory", "conf": {"n": dag.count("|") + 1, "dag": dag, "orders": "two", "shortid": 0, "del": -1},
             "_obligation": "O6", "_covers": ["ran"], "unwind": 80, "reset_mode": True} for nm, dag in (("linear-3", "-|0|1"), ("two-heads", "-|0|0"))]


PROPERTY = {
    "id": "C10",
    "suites": [{"name": "permissioned", "pkg": "internal/db/fetcher", "files": ["zz_verif_c03.go", "zz_verif_c07.go", "zz_verif_c10.go"],
                "common": ["intrinsics", "kvmodel", "dagenv"], "jobs": jobs, "unwind": 30,
                "overrides": {"github.com/sourcenetwork/defradb/client.CborNil": "bytes:f6"}},
               dict(_c09.PROPERTY["suites"][0], name="request", files=["zz_verif_query.go", "zz_verif_c10q.go"], jobs=request_jobs),
               dict(next(x for x in _c03.PROPERTY["suites"] if x["name"] == "request"), name="history", jobs=history_jobs),
               dict(_c20.SAVE_SUITE, name="writeapi", jobs=write_jobs, redirects=_c20.API_REDIR, files=_c20.SAVE_FILES + ["zz_verif_c20api.go", "zz_verif_c10api.go"], common=["intrinsics", "kvmodel", "dagenv", "kvtxn"])],
    "bounds": {"write side (O5)": "one private document of a 2-field collection, created (and optionally updated) by its owner; one attempt (update / delete / create of the same content) by an identified requester without relationship or by an anonymous one; plain collection (thorough: branchable too)",
               "request level (O4)": "2 users, 2 devices, one user or one device unreadable; ages / years / filter constant in a small range; eight request shapes; index sets none and all (thorough: every combination); twin store = the same store without the unreadable document",
               "stack (O3)": "the real wrappingFetcher Init/Start/FetchNext over 2 (thorough 3) documents in the key-value model, each active or deleted, showDeleted on or off", "documents in the scan": "2-3 (thorough 4)", "per document": "registered / allowed / IsDocRegistered error / CheckDocAccess error all symbolic", "policy": "present or absent", "identity": "none or present"},
    "assumptions": ["the ACP system is a symbolic table (the real local/source-hub ACP is not executed)", "the inner fetcher yields the scan's document ids in order"],
    "outside_claim": ["latestCommits and _version sub-selections, time travel, subscriptions, filtered update / delete (UpdateWithFilter, DeleteWithFilter), grouping and aggregates other than _count, grant / revoke through the real ACP engine",
                      "the ACP engine itself (zanzibar relations)"],
}
