"""C01 — replicas that have merged the same commits show the same documents (kernel level)."""
KF_NULL = "C01-lww-null-tie"
OVR = {"github.com/sourcenetwork/defradb/client.CborNil": "bytes:f6"}


def crdt_jobs(tier):
    ml = 1 if tier == "quick" else 2
    js = [{"id": "overrides", "func": "VerifH_Overrides", "conf": {}, "_obligation": "setup"}]
    for pre in (0, 1):
        for deleted in (0, 1):
            js.append({"id": f"O1.lww.pre{pre}.del{deleted}", "func": "VerifH_C01_LWW",
                       "conf": {"pre": pre, "deleted": deleted, "maxlen": ml, "class": 0}, "_obligation": "O1", "_covers": ["merged"]})
    for pn in (0, 1):
        for pre in (0, 1):
            js.append({"id": f"O2.counter.pn{pn}.pre{pre}", "func": "VerifH_C01_CounterInt",
                       "conf": {"pn": pn, "pre": pre, "deleted": 0}, "_obligation": "O2", "_covers": ["merged"], "reset_mode": True})
    js.append({"id": "O2.counter.pn1.pre1.deleted", "func": "VerifH_C01_CounterInt", "conf": {"pn": 1, "pre": 1, "deleted": 1},
               "_obligation": "O2", "_covers": ["merged"], "reset_mode": True})
    js.append({"id": "O2.counter.float64.order", "func": "VerifH_C01_CounterFloat", "conf": {}, "_obligation": "O2",
               "_expect": "known:C01-float-counter-order", "_known_labels": ["float-sum-order-independent"], "_covers": ["merged"]})
    js.append({"id": "O3.composite", "func": "VerifH_C01_Composite", "conf": {"maxlen": 1, "class": 0}, "_obligation": "O3", "_covers": ["merged"]})
    js.append({"id": "twin", "func": "VerifH_C01_Reach", "conf": {}, "_obligation": "vacuity", "_expect": "twin", "_covers": ["end"]})
    return js


from props import C02 as _c02


def conv_jobs(tier):
    """O4: bounded end-to-end convergence — after every delivery the replica state equals the reference function
    of the SET of merged commits, so any two replicas that merged the same commits are equal."""
    n = 3 if tier == "quick" else 4
    js = []
    for kind, kn in ((0, "register"), (1, "counter")):
        for d in (-1, n - 1, 1):
            js.append({"id": f"O4.converge.{kn}.n{n}.del{d}", "func": "VerifH_C02_Deliver",
                       "conf": {"n": n, "kind": kind, "del": d, "deliveries": 3, "hasfield": 1, "class": 2, "dag": "", "orders": "all", "shortid": 0, "for": "C01", "fieldmask": 0},
                       "_obligation": "O4", "_covers": ["delivered"], "unwind": 40, "reset_mode": True})
    return js


PROPERTY = {
    "id": "C01",
    "suites": [
        dict(_c02.SUITE, name="converge", jobs=conv_jobs),
        {"name": "crdt", "pkg": "internal/core/crdt", "files": ["zz_verif_crdt.go"], "common": ["intrinsics", "kvmodel"],
         "jobs": crdt_jobs, "overrides": OVR, "unwind": 14},
    ],
    "bounds": {"O4 commits": "3 (quick) / 4 (thorough), <=2 parents, 3 deliveries incl. redelivery, all hash orders", "payload": "1..2 bytes (quick: 1), arbitrary incl. the CBOR null 0xf6", "priorities": "1..299", "writes": "<=3 per register", "counter increments": "full int64"},
    "assumptions": ["kvmodel follows the documented corekv contract", "fxamacker/cbor round-trips numbers (modelled as fixed-width CBOR)",
                    "client.CborNil = {0xf6} (override, compared with the real value in the native run)"],
    "outside_claim": ["more than one field per commit", "secondary-index maintenance after merge", "network layer, merge queue and retry loop (concurrency)"],
}
