"""C19 (thin, one clause) — nodes on different schema versions that exchange commits agree on every field both know;
a commit carrying a field unknown to the receiver merges without error and writes nothing for that field."""
from props import C02 as _c02


def jobs(tier):
    n = 3 if tier == "quick" else 4
    js = []
    for kind, kn in ((0, "register"), (1, "counter")):
        js.append({"id": f"O.unknown-field.{kn}.n{n}", "func": "VerifH_C02_Deliver",
                   "conf": {"n": n, "kind": kind, "del": n - 1, "deliveries": 3, "hasfield": 0, "class": 2, "dag": "", "orders": "all", "shortid": 0, "for": "C19", "fieldmask": 0},
                   "_obligation": "O", "_covers": ["delivered"], "unwind": 40, "reset_mode": True})
    js.append({"id": f"O.unknown-field-with-short-id.counter.n{n}", "func": "VerifH_C02_Deliver",
               "conf": {"n": n, "kind": 1, "del": -1, "deliveries": 3, "hasfield": 0, "class": 2, "dag": "", "orders": "all", "shortid": 1, "for": "C19", "fieldmask": 0},
               "_obligation": "O", "_covers": ["delivered"], "unwind": 40, "reset_mode": True})
    js.append({"id": "twin", "func": "VerifH_C02_Reach", "conf": {"dag": "", "orders": "all", "shortid": 0, "for": "C19", "fieldmask": 0}, "_obligation": "vacuity", "_expect": "twin", "_covers": ["end"]})
    return js


def switch_jobs(tier):
    js = []
    for versions, switches in (((2, 3), (3, 3)) if tier == "quick" else ((2, 4), (3, 4), (4, 4))):
        js.append({"id": f"O2.switch.versions{versions}.switches{switches}", "func": "VerifH_C19_Switch",
                   "conf": {"versions": versions, "switches": switches, "dag": "", "orders": "all", "shortid": 0},
                   "_obligation": "O2", "_covers": ["switched"], "unwind": 60})
    return js


SWITCH_REDIR = dict(_c02.REDIR)
SWITCH_REDIR["(*github.com/sourcenetwork/defradb/internal/db.DB).loadSchema"] = "wLoadSchemaNoop"

PARSER_REDIR = {
    "github.com/sourcenetwork/defradb/internal/request/graphql/schema.NewSchemaManager": "gNewSchemaManager",
    "(*github.com/sourcenetwork/defradb/internal/request/graphql/schema.Generator).Generate": "gGenerate",
}


def parser_jobs(tier):
    return [{"id": "O3.query-types-follow-the-commit", "func": "VerifH_C19_SetSchemaOnCommit", "conf": {}, "_obligation": "O3", "_covers": ["committed", "discarded"]}]


PROPERTY = {
    "id": "C19",
    "suites": [dict(_c02.SUITE, name="unknownfield", jobs=jobs),
               dict(_c02.SUITE, name="switch", jobs=switch_jobs, redirects=SWITCH_REDIR,
                    files=["zz_verif_env.go", "zz_verif_merge.go", "zz_verif_c19switch.go"]),
               {"name": "parser", "pkg": "internal/request/graphql", "files": ["zz_verif_c19parser.go"], "common": ["intrinsics", "kvmodel"], "jobs": parser_jobs,
                "redirects": PARSER_REDIR}],
    "bounds": dict(_c02.PROPERTY["bounds"], **{"active-version switching (O2)": "linear chains of 2-3 (thorough 4) versions, every sequence of 3 (thorough 4) switches"}),
    "assumptions": _c02.PROPERTY["assumptions"] + ["the receiver's collection definition lacks the field carried by every commit"],
    "outside_claim": ["schema patching itself (patchSchema / updateSchema: JSON patch, validation), lens migrations, query results across versions (GraphQL, planner); version chains with branches"],
}
