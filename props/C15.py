"""C15 (thin, safety core) — the replicator retry ledger never forgets an owed delivery."""

REDIR = {
    "github.com/libp2p/go-libp2p/core/peer.Decode": "lDecode",
    "(github.com/libp2p/go-libp2p/core/peer.ID).String": "lIDString",
    "(*github.com/ipld/go-ipld-prime/linking.LinkSystem).Load": "lLoad",
    "github.com/sourcenetwork/defradb/internal/core/block.GetFromNode": "lGetFromNode",
    "github.com/ipfs/go-block-format.NewBlock": "lNewBlock",
    "github.com/sourcenetwork/defradb/net.syncDAG": "lSyncDAG",
    "github.com/sourcenetwork/defradb/internal/core/block.GetFromBytes": "lGetFromBytes",
}

OVR = {"github.com/sourcenetwork/defradb/client.CborNil": "bytes:f6",
       "github.com/sourcenetwork/defradb/internal/core/block.BlockSchema": "opaque",
       "github.com/sourcenetwork/defradb/internal/core/block.BlockSchemaPrototype": "opaque"}

PATCHES = [
    # the network push inside pushLog (dial + gRPC invoke) becomes the harness callback; pushLog's own failure
    # handling (the deferred handleReplicatorFailure for first pushes) stays as it is
    {"file": "net/client.go",
     "anchor": "\tclient, err := s.dial(pid) // grpc dial over P2P stream\n\tif err != nil {\n\t\treturn NewErrPushLog(err)\n\t}\n\n\tctx, cancel := context.WithTimeout(s.peer.ctx, PushTimeout)",
     "replace": "\tif verifPush != nil {\n\t\treturn verifPush(evt, pid)\n\t}\n\tclient, err := s.dial(pid) // grpc dial over P2P stream\n\tif err != nil {\n\t\treturn NewErrPushLog(err)\n\t}\n\n\tctx, cancel := context.WithTimeout(s.peer.ctx, PushTimeout)"},
    # the retry goroutine runs when the harness says so
    {"file": "net/p2p_replicator.go",
     "anchor": "\t\t\tgo p.retryReplicator(ctx, key.PeerID)\n",
     "replace": "\t\t\tverifSpawn(func() { p.retryReplicator(ctx, key.PeerID) })\n"},
    # the per-replicator push goroutines of pushLogToReplicators run when the harness says so
    {"file": "net/peer.go",
     "anchor": "\t\t\tgo func(peerID peer.ID) {\n\t\t\t\tif err := p.server.pushLog(lg, peerID); err != nil {",
     "replace": "\t\t\tverifSpawnPeer(pid, func(peerID peer.ID) {\n\t\t\t\tif err := p.server.pushLog(lg, peerID); err != nil {"},
    {"file": "net/peer.go",
     "anchor": "\t\t\t\t\t\tcorelog.Any(\"PeerID\", peerID))\n\t\t\t\t}\n\t\t\t}(pid)\n",
     "replace": "\t\t\t\t\t\tcorelog.Any(\"PeerID\", peerID))\n\t\t\t\t}\n\t\t\t})\n"},
]


def jobs(tier):
    js = []
    n = 3 if tier == "quick" else 4
    for nested, nn in ((0, "none"), (1, "other-doc"), (2, "same-doc"), (4, "commit-in-transaction"), (5, "retry-loop-in-transaction")):
        j = {"id": f"O1.ledger.events{n}.nested-{nn}", "func": "VerifH_C15_Ledger",
             "conf": {"events": n, "nested": nested, "rounds": 3}, "_obligation": "O1", "_covers": ["quiescent"], "unwind": 24}
        if nested == 5:
            j["_blocked_ok"] = True
        js.append(j)
    calls = 2 if tier == "quick" else 3
    for restart in (0, 1):
        js.append({"id": f"O2.routing.calls{calls}.restart{restart}", "func": "VerifH_C15_Routing", "conf": {"calls": calls, "restart": restart, "nested": 0},
                   "_obligation": "O2", "_covers": ["configured"], "map_order": True, "unwind": 24})
    for pre in ((1, 2) if tier == "quick" else (1, 2, 3)):
        js.append({"id": f"O4.concurrent-failures.preempt{pre}", "func": "VerifH_C15_ConcurrentFailures", "conf": {"rounds": 3, "nested": 0, "preempt": pre},
                   "_obligation": "O4", "_covers": ["quiescent"], "_schedule_replay": True, "unwind": 60})
    js.append({"id": "O3.receive", "func": "VerifH_C15_Receive", "conf": {"nested": 0}, "_obligation": "O3", "_covers": ["received"]})
    js.append({"id": "twin", "func": "VerifH_C15_Reach", "conf": {"nested": 0}, "_obligation": "vacuity", "_expect": "twin", "_covers": ["end"]})
    return js


PROPERTY = {
    "id": "C15",
    "suites": [{"name": "ledger", "pkg": "net", "files": ["zz_verif_c15.go"], "common": ["intrinsics", "kvmodel", "kvtxn"],
                "jobs": jobs, "redirects": REDIR, "overrides": OVR, "patches": PATCHES}],
    "bounds": {"documents": 2, "replicators": 1, "history": "3 events (quick) / 4 (thorough), each a commit (document, schema version, push outcome: inputs) or a retry round (outcome of every retried push: input)",
               "concurrent events": "at most one per history: a commit during a retried push, or a commit / a retry-loop round between the reads and the commit of a bookkeeping transaction", "retry rounds after traffic stops": "3 (a debt still recorded and retriable after them is reported as BOUND-EXCEEDED, not as a violation)",
               "routing (O2)": "2 replicators, 2 collections, 2 (thorough 3) configuration calls with any collection subset and status, with / without a restart of the sender; map iteration orders as rotations"},
    "assumptions": ["the network push is a callback whose outcome is an input (source patch of pushLog regenerated from the current tree); concurrent events are injected only while a retried push is on the wire or at the commit of a transaction (run to completion there); schedules in which the injected operation would wait for a mutex are dropped (blocked paths)",
                    "the retry goroutine runs to completion right after retryReplicators returns (one schedule)",
                    "a retry is always due (fixed negative back-off intervals; time.Now is the zero time inside the solver run)",
                    "the database is the transactional store model kvtxn (snapshot reads, read-write conflict detection at commit)",
                    "json / cbor encoding of the replicator and retry records is a box (identity on round trip)",
                    "receiver: a successful push of commit v of a document delivers all its commits up to v",
                    "O2: libp2p host / peerstore / bitswap exchange are no-op fakes; the per-replicator push goroutines of pushLogToReplicators run after it returns (source patch)"],
    "outside_claim": ["liveness proper (timers, the retry loop goroutine, back-off schedule), libp2p / gRPC / pubsub, thread interleavings other than a commit arriving during a retried push",
                      "SetReplicator / DeleteReplicator, restart of the sending node, store faults", "the receiving node (DAG sync, merge: C02, C19)"],
}
