"""C08 — filter, order, limit semantics; no panic (kernel level)."""

KN = {0: "nil", 1: "int", 2: "float", 3: "string", 4: "bool", 5: "time"}
OPS = ["eq", "ne", "gt", "ge", "lt", "le", "in", "nin"]
KF = "C08-order-later-keys-ignored"


def jobs(tier):
    js = []
    for k in (1, 2, 3, 4, 5):
        js.append({"id": f"O1.compare.{KN[k]}", "func": "VerifH_C08_Compare", "conf": {"k0": k}, "_obligation": "O1", "_covers": ["compared"]})
        js.append({"id": f"O1.cmp1.{KN[k]}", "func": "VerifH_C08_Comparator", "conf": {"keys": 1, "k0": k, "class": 2},
                   "_obligation": "O1", "_covers": ["compared"]})
    pairs = [(1, 1), (1, 3), (3, 1), (2, 4)] if tier == "quick" else [(a, b) for a in (1, 2, 3, 4, 5) for b in (1, 2, 3, 4, 5)]
    for a, b in pairs:
        base = {"keys": 2, "k0": a, "k1": b}
        js.append({"id": f"O1.cmp2.{KN[a]}.{KN[b]}.distinct-first-key", "func": "VerifH_C08_Comparator", "conf": dict(base, **{"class": 0}),
                   "_obligation": "O1", "_covers": ["compared"]})
        js.append({"id": f"O1.cmp2.{KN[a]}.{KN[b]}.tie-on-first-key", "func": "VerifH_C08_Comparator", "conf": dict(base, **{"class": 1}),
                   "_obligation": "O1", "_expect": "known:" + KF, "_known_labels": ["lexicographic"], "_covers": ["compared"]})
    swo = [(1, 1), (2, 3)] if tier == "quick" else [(1, 1), (2, 3), (3, 1), (4, 5), (5, 2)]
    for a, b in swo:
        js.append({"id": f"O1.swo.{KN[a]}.{KN[b]}", "func": "VerifH_C08_StrictWeakOrder", "conf": {"keys": 2, "k0": a, "k1": b},
                   "_obligation": "O1", "_covers": ["compared"]})
    # O2 sort pipeline
    for k in ((1, 3) if tier == "quick" else (1, 2, 3, 4, 5)):
        js.append({"id": f"O2.sort1.{KN[k]}", "func": "VerifH_C08_Sort", "conf": {"keys": 1, "k0": k, "n": 3, "class": 2},
                   "_obligation": "O2", "_covers": ["sorted"], "unwind": 40})
    js.append({"id": "O2.sort2.int.int.distinct-first-key", "func": "VerifH_C08_Sort", "conf": {"keys": 2, "k0": 1, "k1": 1, "n": 3, "class": 0},
               "_obligation": "O2", "_covers": ["sorted"], "unwind": 40})
    if tier == "thorough":
        js.append({"id": "O2.sort1.int.n4", "func": "VerifH_C08_Sort", "conf": {"keys": 1, "k0": 1, "n": 4, "class": 2},
                   "_obligation": "O2", "_covers": ["sorted"], "unwind": 60})
    # O3 limit
    for n in ((0, 1, 3) if tier == "quick" else (0, 1, 2, 3, 4, 5)):
        js.append({"id": f"O3.limit.n{n}", "func": "VerifH_C08_Limit", "conf": {"n": n}, "_obligation": "O3", "_covers": ["drained"], "unwind": 20})
    # O4 operators
    for oi, op in enumerate(OPS):
        for ck, dk in [(1, 1), (2, 2), (1, 2), (2, 1), (3, 3), (4, 4), (1, 3)]:
            if op in ("gt", "ge", "lt", "le") and ck in (3, 4):
                continue  # ordered comparison of strings/bools is not offered by the filter language
            j = {"id": f"O4.{op}.c{KN[ck]}.d{KN[dk]}", "func": "VerifH_C08_FilterOp",
                 "conf": {"op": oi, "ck": ck, "dk": dk, "dnull": 1}, "_obligation": "O4", "_covers": ["filtered"]}
            # mixed int/float operands are reachable through the public API: JSON fields hold float64 and accept
            # integer operands; aggregates filtered through _alias are int (_count) or float (_avg) under either operand
            js.append(j)
    for ck, dk in [(1, 1), (2, 2), (1, 2), (2, 1)]:
        j = {"id": f"O4.laws.c{KN[ck]}.d{KN[dk]}", "func": "VerifH_C08_FilterLaws", "conf": {"ck": ck, "dk": dk},
             "_obligation": "O4", "_covers": ["filtered"]}
        js.append(j)
    for kind, kn in ((0, "child-int"), (1, "child-float"), (2, "inline-int-limit")):
        if kind == 1:
            js.append({"id": f"O5.sum.{kn}", "func": "VerifH_C08_Sum", "conf": {"kind": kind, "class": 2}, "_obligation": "O5", "_covers": ["summed"], "reset_mode": True})
            continue
        js.append({"id": f"O5.sum.{kn}", "func": "VerifH_C08_Sum", "conf": {"kind": kind, "class": 0}, "_obligation": "O5", "_covers": ["summed"], "reset_mode": True})
    js.append({"id": "O5.sum.child-int.above-2p53", "func": "VerifH_C08_Sum", "conf": {"kind": 0, "class": 1}, "_obligation": "O5", "_covers": ["summed"], "reset_mode": True,
               "_expect": "known:C08-sum-int-above-2p53", "_known_labels": ["integer-sum-is-the-arithmetic-sum"]})
    js.append({"id": "twin", "func": "VerifH_C08_Reach", "conf": {}, "_obligation": "vacuity", "_expect": "twin", "_covers": ["end"]})
    return js


def eq_jobs(tier):
    return [{"id": "O6.filter-equality", "func": "VerifH_C08_FilterEqual", "conf": {}, "_obligation": "O6", "_covers": ["compared"], "map_order": True, "unwind": 40},
            {"id": "twin.filter-equality", "func": "VerifH_C08_FilterEqualReach", "conf": {}, "_obligation": "vacuity", "_expect": "twin", "_covers": ["end"]}]


from props import C09 as _c09


def request_jobs(tier):
    js = []
    for agg, an in ((0, "max"), (1, "min")):
        for first, fn in (((0, "floats-first"),) if tier == "quick" else ((0, "floats-first"), (1, "ints-first"))):
            js.append({"id": f"O7.request.{an}.two-targets.{fn}", "func": "VerifH_C08_MinMax", "conf": {"agg": agg, "first": first},
                       "_obligation": "O7", "_covers": ["ran"], "unwind": 60})
    for idx in (0, 2):
        js.append({"id": f"O8.request.group-by.idx{idx}", "func": "VerifH_C08_Group", "conf": {"idx": idx}, "_obligation": "O8", "_covers": ["ran"], "unwind": 60})
    return js


PROPERTY = {
    "id": "C08",
    "suites": [{"name": "planner", "pkg": "internal/planner", "files": ["zz_verif_c08.go", "zz_verif_c08agg.go"], "jobs": jobs, "unwind": 16},
               dict(_c09.PROPERTY["suites"][0], name="request", files=["zz_verif_query.go", "zz_verif_c08q.go"], jobs=request_jobs),
               {"name": "mapper", "pkg": "internal/planner/mapper", "files": ["zz_verif_c08eq.go"], "jobs": eq_jobs, "unwind": 40}],
    "bounds": {"quick": {"sort keys": "<=2", "rows sorted": 3, "limit rows": "<=3", "strings": "<=2 bytes", "numeric": "full width"},
               "thorough": {"sort keys": "<=2 (all kind pairs)", "rows sorted": "3-4", "limit rows": "<=5", "strings": "<=2 bytes", "numeric": "full width"}},
    "assumptions": ["values of one field share one kind (schema typing)", "no NaN (cannot enter through JSON/GraphQL)",
                    "limit/offset < 2^31 (non-negative GraphQL Int)",
                    "mixed int/float comparisons are specified as carried out in float64, mixed equality as exact"],
    "outside_claim": ["average; grouping by more than one field or with filters / limits inside the group; min / max beyond two inline-array targets (floats from four constants, integers int8); integer sums beyond the window explored for known finding C08-sum-int-above-2p53 (one value in [2^53, 2^53+255])", "average (fp.add chains time out in all solvers), _like family, array/JSON operators",
                      "GraphQL parser, mapper and ExecRequest as a whole (the no-request-panics clause)", "commits plan node"],
}
