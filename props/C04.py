"""C04 — the commit graph is a well-formed Merkle DAG (frontier, height, deterministic construction)."""
from props import C02 as _c02
OVR = {"github.com/sourcenetwork/defradb/client.CborNil": "bytes:f6"}


def block_jobs(tier):
    n = 3 if tier == "quick" else 4
    js = []
    for links in (0, 1):
        js.append({"id": f"O1.updateHeads.n{n}.links{links}", "func": "VerifH_C04_UpdateHeads", "conf": {"n": n, "links": links},
                   "_obligation": "O1", "_covers": ["updated"], "unwind": 30})
    for k in (2, 3):
        js.append({"id": f"O4.new-deterministic.k{k}", "func": "VerifH_C04_NewDeterministic", "conf": {"k": k},
                   "_obligation": "O4", "_covers": ["built"], "unwind": 30})
    for c in (0, 1):
        js.append({"id": f"O1.namespace-isolation.{'collection' if c else 'field'}", "func": "VerifH_C04_NamespaceIsolation", "conf": {"collection": c},
                   "_obligation": "O1", "_covers": ["listed"], "unwind": 30})
    js.append({"id": "twin", "func": "VerifH_C04_Reach", "conf": {}, "_obligation": "vacuity", "_expect": "twin", "_covers": ["end"]})
    return js


def frontier_jobs(tier):
    """O3: after every delivery through the real merge walk the reported heads are the frontier"""
    n = 3 if tier == "quick" else 4
    return [{"id": f"O3.frontier.register.n{n}", "func": "VerifH_C02_Deliver",
             "conf": {"n": n, "kind": 0, "del": -1, "deliveries": 3, "hasfield": 1, "class": 2, "dag": "", "orders": "all", "shortid": 0, "for": "C04", "fieldmask": 0},
             "_obligation": "O3", "_covers": ["delivered"], "unwind": 40, "reset_mode": True},
            {"id": "O3.frontier.counter.two-chains-3-2", "func": "VerifH_C02_Deliver",
             "conf": {"n": 6, "kind": 1, "del": -1, "deliveries": 3, "hasfield": 1, "class": 2, "dag": _c02.SHAPES["two-chains-3-2"], "orders": "two", "shortid": 0, "for": "C04", "fieldmask": 0},
             "_obligation": "O3", "_covers": ["delivered"], "unwind": 60, "reset_mode": True},
            {"id": "O3.frontier.counter.long-short-merge-late-fork", "func": "VerifH_C02_Deliver",
             "conf": {"n": 8, "kind": 1, "del": -1, "deliveries": 2 if tier == "quick" else 3, "hasfield": 1, "class": 2,
                      "dag": _c02.SHAPES["long-short-merge-late-fork"], "orders": "two", "shortid": 0, "for": "C04", "fieldmask": (1 << 5) | (1 << 6)},
             "_obligation": "O3", "_covers": ["delivered"], "unwind": 60, "reset_mode": True}]


from props import C11 as _c11


def adddelta_jobs(tier):
    """O2: height rule and head replacement through the real AddDelta (create + update history of the C11 harness)"""
    return [{"id": "O2.adddelta.history", "func": "VerifH_C11_History", "conf": {"doc": 0, "fcfg": 0, "class": 2, "c04": 1},
             "_obligation": "O2", "_covers": ["history"], "unwind": 60},
            {"id": "O2.adddelta.history.encrypted", "func": "VerifH_C11_History", "conf": {"doc": 1, "fcfg": 0, "class": 0, "c04": 1},
             "_obligation": "O2", "_covers": ["history"], "unwind": 60},
            {"id": "O2.adddelta.two-heads", "func": "VerifH_C11_MixedHeads", "conf": {"doc": 0, "c04": 1},
             "_obligation": "O2", "_covers": ["mixed"], "unwind": 300}]


from props import C20 as _c20


def save_jobs(tier):
    """O2 through the real collection.save (create + update of a real client.Document): height, parents, single head"""
    return [{"id": "O2.save", "func": "VerifH_S1_Save", "conf": {"branchable": 0, "faults": 0, "dag": "", "orders": "all", "shortid": 0, "for": "C04"},
             "map_order": True, "_obligation": "O2", "_covers": ["saved"], "unwind": 80}]


from props import C15 as _c15


def receive_jobs(tier):
    return [{"id": "O5.received-block-filed-under-its-hash", "func": "VerifH_C04_ReceivedBlockFiledUnderItsHash", "conf": {"nested": 0, "calls": 0, "restart": 0},
             "_obligation": "O5", "_covers": ["received"]}]


PROPERTY = {
    "id": "C04",
    "suites": [
        dict(next(x for x in _c11.PROPERTY["suites"] if x["name"] == "encryption"), name="adddelta", jobs=adddelta_jobs),
        {"name": "block", "pkg": "internal/core/block", "files": ["zz_verif_block.go"], "common": ["intrinsics", "kvmodel"],
         "jobs": block_jobs, "overrides": OVR, "unwind": 30},
        dict(_c02.SUITE, name="frontier", jobs=frontier_jobs),
        dict(_c20.SAVE_SUITE, name="save", jobs=save_jobs),
        dict(_c15.PROPERTY["suites"][0], name="receive", jobs=receive_jobs),
    ],
    "bounds": {"commits": "3 (quick) / 4 (thorough), <=2 parents, all hash orders, all downward-closed merged sets; plus fixed 6- and 8-commit histories (two hash orders) for the frontier of the document and of the field after 2-3 deliveries", "heads/links passed to New": "<=3, all permutations"},
    "assumptions": ["a block's link is a function of its content (synthetic CIDs inside the solver run; real ones natively in the frontier suite)", "kvmodel follows the corekv contract"],
    "outside_claim": ["'filed under the hash of its own bytes' and byte-identical genesis bytes (sha256, dag-cbor reflection)", "closure under ancestry as ensured by net.syncDAG (network, goroutines)",
                      "AddDelta with more than two heads (the height rule is checked through AddDelta for linear field histories and for a field with two heads of any heights 1..3)"],
}
