"""C11 — encrypted fields never leave the node in clear (writer side, create + update history)."""
REDIR = {
    "github.com/sourcenetwork/defradb/internal/core/block.putBlock": "cPutBlock",
    "github.com/sourcenetwork/defradb/internal/core/block.GetFromBytes": "cGetFromBytes",
    "github.com/sourcenetwork/defradb/internal/core/block.GetEncryptionBlockFromBytes": "cGetEncryptionBlockFromBytes",
    "github.com/sourcenetwork/defradb/crypto.EncryptAES": "cEncryptAES",
    "github.com/sourcenetwork/defradb/crypto.DecryptAES": "cDecryptAES",
    "github.com/sourcenetwork/defradb/internal/encryption.generateEncryptionKey": "cGenerateKey",
}
OVR = {"github.com/sourcenetwork/defradb/client.CborNil": "bytes:f6",
       "github.com/sourcenetwork/defradb/internal/core/block.BlockSchema": "opaque",
       "github.com/sourcenetwork/defradb/internal/core/block.EncryptionSchema": "opaque",
       "github.com/sourcenetwork/defradb/internal/encryption.generateEncryptionKeyFunc": "func:github.com/sourcenetwork/defradb/internal/encryption.generateEncryptionKey"}
KF = "C11-late-field-in-clear"


def jobs(tier):
    js = []
    for doc in (0, 1):
        for fcfg in (0, 1, 2, 3):
            if not doc and not fcfg:
                continue
            js.append({"id": f"O3.history.doc{doc}.fields{fcfg}.written-at-creation", "func": "VerifH_C11_History",
                       "conf": {"doc": doc, "fcfg": fcfg, "class": 0, "c04": 0}, "_obligation": "O1+O3", "_covers": ["history"], "unwind": 60})
            js.append({"id": f"O3.history.doc{doc}.fields{fcfg}.first-written-by-update", "func": "VerifH_C11_History",
                       "conf": {"doc": doc, "fcfg": fcfg, "class": 1, "c04": 0}, "_obligation": "O3", "_covers": ["history"], "unwind": 60,
                       "_expect": "known:" + KF, "_known_labels": ["update-stored-block-is-not-plaintext", "update-stored-block-carries-encryption-link"]})
    for doc, fcfg in ((1, 0), (0, 3)):
        js.append({"id": f"O3.history.doc{doc}.fields{fcfg}.key-store-lost-before-the-update", "func": "VerifH_C11_History",
                   "conf": {"doc": doc, "fcfg": fcfg, "class": 0, "c04": 0, "keyloss": 1}, "_obligation": "O3", "_covers": ["history", "refused-without-key"], "unwind": 60})
    js.append({"id": "O3.history.no-encryption", "func": "VerifH_C11_History", "conf": {"doc": 0, "fcfg": 0, "class": 2, "c04": 0},
               "_obligation": "O1", "_covers": ["history"], "unwind": 60})
    for doc in (0, 1):
        js.append({"id": f"O3.mixed-heads.doc{doc}", "func": "VerifH_C11_MixedHeads", "conf": {"doc": doc, "c04": 0}, "_obligation": "O3", "_covers": ["mixed"], "unwind": 300})
    js.append({"id": "twin", "func": "VerifH_C11_Reach", "conf": {}, "_obligation": "vacuity", "_expect": "twin", "_covers": ["end"]})
    return js


from props import C02 as _c02

RECV_REDIR = dict(_c02.REDIR)
RECV_REDIR.update({
    "(*github.com/ipld/go-ipld-prime/linking.LinkSystem).Load": "rLoad",
    "github.com/sourcenetwork/defradb/internal/core/block.GetEncryptionBlockFromNode": "rGetEncryptionBlockFromNode",
    "github.com/sourcenetwork/defradb/crypto.EncryptAES": "rEncryptAES",
    "github.com/sourcenetwork/defradb/crypto.DecryptAES": "rDecryptAES",
})
RECV_OVR = dict(_c02.OVR)
RECV_OVR["github.com/sourcenetwork/defradb/internal/core/block.EncryptionSchemaPrototype"] = "opaque"


def recv_jobs(tier):
    return [{"id": f"O2.receiver.haskey{h}", "func": "VerifH_C11_Receiver", "conf": {"haskey": h, "dag": "", "orders": "all", "shortid": 0},
             "_obligation": "O2", "_covers": ["processed"], "unwind": 60} for h in (0, 1)]


PROPERTY = {
    "id": "C11",
    "suites": [
        dict(_c02.SUITE, name="receiver", jobs=recv_jobs, redirects=RECV_REDIR, overrides=RECV_OVR,
             files=["zz_verif_env.go", "zz_verif_merge.go", "zz_verif_c11recv.go"]),{"name": "encryption", "pkg": "internal/core/block", "files": ["zz_verif_block.go", "zz_verif_c11.go"], "common": ["intrinsics", "kvmodel"],
                "jobs": jobs, "redirects": REDIR, "overrides": OVR, "unwind": 60, "witnesses": {"quick": 6, "thorough": 12}}],
    "bounds": {"fields": 2, "payload": "2 symbolic bytes per write", "history": "create (any encryption config: doc-level, any subset of the two fields, both) writing any subset of the fields, then one update without config writing any subset", "mixed heads": "a field with one encrypted head written here and one plaintext head merged from a peer (height 1..3), in either CID order, then a local update"},
    "assumptions": ["model cipher inside the solver run (injective, key-dependent, never equal to the plaintext); natively real AES-GCM", "injective block codec; block and key stores as tables"],
    "outside_claim": ["AES-GCM itself, key exchange (internal/kms)", "what net puts on the wire beyond the update event bytes", "key exchange after a missing key (tryFetchMissingBlocksAndMerge waits on the event bus)"],
}
