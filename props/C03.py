"""C03 — a document queried at a commit shows exactly the state of that commit (time-travel kernel)."""
from props import C02 as _c02
OVR = dict(_c02.OVR)
REDIR = {
    "github.com/sourcenetwork/defradb/internal/core/block.GetFromBytes": "vGetFromBytes",
    "(*github.com/sourcenetwork/defradb/internal/core/block.Block).GenerateLink": "vGenerateLink",
}
LINEAR = {"linear-4": "-|0|1|2", "linear-3": "-|0|1", "diamond": "-|0|0|1,2", "diamond-tail": "-|0|0|1,2|3", "two-chains-merge": "-|0|1|0|3|2,4"}


def jobs(tier):
    js = []
    for kind, kn in ((1, "counter"), (0, "register")):
        for sn, dag in LINEAR.items():
            n = dag.count("|") + 1
            js.append({"id": f"O.seek.{kn}.{sn}", "func": "VerifH_C03_SeekTo", "conf": {"n": n, "kind": kind, "dag": dag, "orders": "two", "shortid": 0, "del": -1},
                       "_obligation": "O", "_covers": ["sought"], "unwind": 40, "reset_mode": True})
        n = 3 if tier == "quick" else 4
        js.append({"id": f"O.seek.{kn}.any-dag.n{n}", "func": "VerifH_C03_SeekTo", "conf": {"n": n, "kind": kind, "dag": "", "orders": "all", "shortid": 0, "del": -1},
                   "_obligation": "O", "_covers": ["sought"], "unwind": 40, "reset_mode": True})
    for kind, kn in ((1, "counter"), (0, "register")):
        js.append({"id": f"O.seek.{kn}.linear-3.last-commit-deletes", "func": "VerifH_C03_SeekTo", "conf": {"n": 3, "kind": kind, "dag": "-|0|1", "orders": "two", "shortid": 0, "del": 2},
                   "_obligation": "O", "_covers": ["sought"], "unwind": 40, "reset_mode": True})
    js.append({"id": "twin", "func": "VerifH_C03_Reach", "conf": {"dag": "", "orders": "all", "shortid": 0}, "_obligation": "vacuity", "_expect": "twin", "_covers": ["end"]})
    return js


IDX_PATCHES = [
    {"file": "internal/db/fetcher/versioned.go",
     "anchor": "\troot := memory.NewDatastore(ctx)\n\tvf.root = root\n",
     "replace": "\tvar root corekv.TxnStore\n\tif VerifMemStore != nil {\n\t\troot = VerifMemStore()\n\t} else {\n\t\troot = memory.NewDatastore(ctx)\n\t}\n\tvf.root = root\n"},
]


def idx_jobs(tier):
    return [{"id": "O2.read-with-indexed-filter", "func": "VerifH_C03_ReadWithIndexedFilter", "conf": {"dag": "", "orders": "all", "shortid": 0, "del": -1},
             "_obligation": "O2", "_covers": ["read"], "unwind": 60, "reset_mode": True}]


from props import C09 as _c09

REQ_REDIR = dict(REDIR)
REQ_REDIR.update(_c02.REDIR)
REQ_REDIR.update(_c09.REDIR)


def request_jobs(tier):
    return [{"id": f"O3.request-at-commit.{nm}", "func": "VerifH_C03_RequestAtCommit", "conf": {"n": dag.count("|") + 1, "dag": dag, "orders": "two", "shortid": 0, "del": -1},
             "_obligation": "O3", "_covers": ["ran"], "unwind": 80, "reset_mode": True} for nm, dag in (("two-heads", "-|0|0"), ("linear-3", "-|0|1"))]


PROPERTY = {
    "id": "C03",
    "suites": [{"name": "versioned", "pkg": "internal/db/fetcher", "files": ["zz_verif_c03.go"], "common": ["intrinsics", "kvmodel", "dagenv"],
                "jobs": jobs, "overrides": OVR, "redirects": REDIR, "unwind": 40, "witnesses": {"quick": 12, "thorough": 32}},
               {"name": "readwithindex", "pkg": "internal/db/fetcher", "files": ["zz_verif_c03.go", "zz_verif_c03idx.go", "zz_verif_memhook.go"], "common": ["intrinsics", "kvmodel", "dagenv", "kvtxn"],
                "jobs": idx_jobs, "overrides": OVR, "redirects": REDIR, "patches": IDX_PATCHES, "unwind": 60},
               {"name": "request", "pkg": "internal/planner", "files": ["zz_verif_query.go", "zz_verif_c03q.go"], "common": ["intrinsics", "kvmodel", "dagenv", "kvtxn"],
                "jobs": request_jobs, "overrides": OVR, "redirects": REQ_REDIR, "patches": IDX_PATCHES, "unwind": 80,
                "extra_overlay": {"internal/db/fetcher/zz_verif_memhook.go": "internal/db/fetcher/zz_verif_memhook.go"}}],
    "bounds": {"commits": "linear histories of 3 and 4 commits, a diamond, a diamond with a tail, two chains joined by a merge commit; every DAG of 3 (thorough 4) commits with <=2 parents", "target": "every commit", "fields": "one counter or one register field written by every commit"},
    "assumptions": _c02.PROPERTY["assumptions"],
    "outside_claim": ["subscriptions", "planner wiring (scanNode), ACP on this path, encrypted history", "the document fetcher that reads the transient store afterwards"],
}
