"""C17 — index key encoding preserves value order and loses nothing."""

KINDS = ["int", "float64", "float32", "bool", "string", "time"]


def jobs(tier):
    maxlen = 2 if tier == "quick" else 3
    js = []
    for k, name in enumerate(KINDS):
        for d in (0, 1):
            dn = "desc" if d else "asc"
            conf = {"kind": k, "desc": d, "maxlen": maxlen, "nullable": 1}
            js.append({"id": f"O2.order.{name}.{dn}", "func": "VerifH_C17_Order", "conf": conf,
                       "_obligation": "O2", "_covers": ["encoded"]})
            js.append({"id": f"O1O3.roundtrip.{name}.{dn}", "func": "VerifH_C17_RoundTrip",
                       "conf": dict(conf, suffix=1 if tier == "quick" else 2),
                       "_obligation": "O1+O3", "_covers": ["decoded"]})
            js.append({"id": f"twin.{name}.{dn}", "func": "VerifH_C17_Reach", "conf": {"kind": k, "desc": d},
                       "_obligation": "vacuity", "_expect": "twin", "_covers": ["end"]})
    for d in (0, 1):
        dn = "desc" if d else "asc"
        js.append({"id": f"O2.nan.{dn}", "func": "VerifH_C17_NaNFirst", "conf": {"desc": d}, "_obligation": "O2-NaN",
                   "_covers": ["encoded"]})
        js.append({"id": f"O1b.bitexact.nonzero.{dn}", "func": "VerifH_C17_FloatBitExact", "conf": {"desc": d, "zero": 0},
                   "_obligation": "O1b", "_covers": ["decoded"]})
        js.append({"id": f"O1b.bitexact.zero.{dn}", "func": "VerifH_C17_FloatBitExact", "conf": {"desc": d, "zero": 1},
                   "_obligation": "O1b", "_expect": "known:C17-float-zero-sign", "_known_labels": ["bit-exact"],
                   "_covers": ["decoded"]})
    return js


PROPERTY = {
    "id": "C17",
    "suites": [
        {"name": "encoding", "pkg": "internal/encoding", "files": ["zz_verif_c17.go"], "jobs": jobs, "unwind": 12},
    ],
    "bounds": {
        "quick": {"int64/float64/float32/bool": "full width", "string": "length <= 2, arbitrary bytes", "time": "sec in [-2^55,2^55], nsec in [0,1e9)", "suffix bytes": 1, "unwind": 12},
        "thorough": {"int64/float64/float32/bool": "full width", "string": "length <= 3, arbitrary bytes", "time": "sec in [-2^55,2^55], nsec in [0,1e9)", "suffix bytes": 2, "unwind": 12},
    },
    "assumptions": [
        "NaN is excluded from the order obligation (cannot enter through JSON/GraphQL); NaN-first/last is checked separately",
        "time values are built by the real time.Unix(sec,nsec) with sec in [-2^55,2^55], nsec in [0,1e9)",
        "the key-value store compares keys with bytes.Compare (corekv contract)",
        "go/ssa lowering, symgo instruction semantics (validated per explored path against a native run), z3",
    ],
    "outside_claim": ["strings longer than the bound", "JSON-kind values (see evidence of the json suite when present)", "array kinds"],
}
