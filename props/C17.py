"""C17 — index key encoding preserves value order and loses nothing."""

KINDS = ["int", "float64", "float32", "bool", "string", "time"]


def jobs(tier):
    maxlen = 2 if tier == "quick" else 3
    js = []
    for k, name in enumerate(KINDS):
        for d in (0, 1):
            dn = "desc" if d else "asc"
            conf = {"kind": k, "desc": d, "maxlen": maxlen, "nullable": 1}
            js.append({"id": f"O2.order.{name}.{dn}", "func": "VerifH_C17_Order", "conf": conf,
                       "_obligation": "O2", "_covers": ["encoded"]})
            js.append({"id": f"O1O3.roundtrip.{name}.{dn}", "func": "VerifH_C17_RoundTrip",
                       "conf": dict(conf, suffix=1 if tier == "quick" else 2),
                       "_obligation": "O1+O3", "_covers": ["decoded"]})
            js.append({"id": f"twin.{name}.{dn}", "func": "VerifH_C17_Reach", "conf": {"kind": k, "desc": d},
                       "_obligation": "vacuity", "_expect": "twin", "_covers": ["end"]})
    for d in (0, 1):
        dn = "desc" if d else "asc"
        js.append({"id": f"O2.nan.{dn}", "func": "VerifH_C17_NaNFirst", "conf": {"desc": d}, "_obligation": "O2-NaN",
                   "_covers": ["encoded"]})
        js.append({"id": f"O1b.bitexact.nonzero.{dn}", "func": "VerifH_C17_FloatBitExact", "conf": {"desc": d, "zero": 0},
                   "_obligation": "O1b", "_covers": ["decoded"]})
        js.append({"id": f"O1b.bitexact.zero.{dn}", "func": "VerifH_C17_FloatBitExact", "conf": {"desc": d, "zero": 1},
                   "_obligation": "O1b", "_expect": "known:C17-float-zero-sign", "_known_labels": ["bit-exact"],
                   "_covers": ["decoded"]})
    return js


KK = ["int", "float", "string", "bool"]


def key_jobs(tier):
    js = []
    pairs = [(0, 0), (0, 2), (2, 0), (1, 3)] if tier == "quick" else [(a, b) for a in range(4) for b in range(4)]
    for a, b in pairs:
        js.append({"id": f"O4.composite.{KK[a]}.{KK[b]}", "func": "VerifH_C17_CompositeKey", "conf": {"k0": a, "k1": b},
                   "_obligation": "O4", "_covers": ["encoded"], "unwind": 40})
    for klen, xlen in (((3, 4),) if tier == "quick" else ((3, 4), (4, 5))):
        js.append({"id": f"O5.prefix-end.k{klen}.x{xlen}", "func": "VerifH_C17_PrefixEnd", "conf": {"klen": klen, "xlen": xlen},
                   "_obligation": "O5", "_covers": ["computed"], "unwind": 40})
    for kind in ((0, 1) if tier == "quick" else (0, 1, 2, 3)):
        js.append({"id": f"O5.key-range.index.{KK[kind]}", "func": "VerifH_C17_KeyRange", "conf": {"which": 0, "kind": kind},
                   "_obligation": "O5", "_covers": ["ranged"], "unwind": 40})
    js.append({"id": "O5.key-range.document", "func": "VerifH_C17_KeyRange", "conf": {"which": 1, "kind": 0}, "_obligation": "O5", "_covers": ["ranged"], "unwind": 40})
    js.append({"id": "twin.keys", "func": "VerifH_C17_KeysReach", "conf": {}, "_obligation": "vacuity", "_expect": "twin", "_covers": ["end"]})
    return js


JK = ["null", "bool", "number", "string"]


def json_jobs(tier):
    js = []
    for desc in (0, 1):
        for ka, kb in ((0, 0), (0, 1), (0, 2), (0, 3), (1, 1), (2, 2), (3, 3)):
            js.append({"id": f"O6.json.{JK[ka]}.{JK[kb]}.{'desc' if desc else 'asc'}", "func": "VerifH_C17_JSON", "conf": {"ka": ka, "kb": kb, "desc": desc},
                       "_obligation": "O6", "_covers": ["encoded"], "unwind": 20})
    return js


PROPERTY = {
    "id": "C17",
    "suites": [
        {"name": "keys", "pkg": "internal/keys", "files": ["zz_verif_c17keys.go"], "jobs": key_jobs, "unwind": 40, "witnesses": {"quick": 12, "thorough": 32}},
        {"name": "encoding", "pkg": "internal/encoding", "files": ["zz_verif_c17.go"], "jobs": jobs, "unwind": 12},
        {"name": "json", "pkg": "internal/encoding", "files": ["zz_verif_c17.go", "zz_verif_c17json.go"], "jobs": json_jobs, "unwind": 20},
    ],
    "bounds": {
        "quick": {"int64/float64/float32/bool": "full width", "string": "length <= 2, arbitrary bytes", "time": "sec in [-2^55,2^55], nsec in [0,1e9)", "suffix bytes": 1, "unwind": 12, "composite keys": "2 fields (int16-range ints, float64, strings <= 2 bytes, bool, each nullable) + doc id, asc/desc per field symbolic", "PrefixEnd": "k <= 3 bytes, x <= 4 bytes"},
        "thorough": {"int64/float64/float32/bool": "full width", "string": "length <= 3, arbitrary bytes", "time": "sec in [-2^55,2^55], nsec in [0,1e9)", "suffix bytes": 2, "unwind": 12},
    },
    "assumptions": [
        "NaN is excluded from the order obligation (cannot enter through JSON/GraphQL); NaN-first/last is checked separately",
        "time values are built by the real time.Unix(sec,nsec) with sec in [-2^55,2^55], nsec in [0,1e9)",
        "the key-value store compares keys with bytes.Compare (corekv contract)",
        "go/ssa lowering, symgo instruction semantics (validated per explored path against a native run), z3",
    ],
    "outside_claim": ["strings longer than the bound", "JSON values beyond one property segment with a scalar leaf (objects, arrays: array positions are encoded as 0 by design), the order between JSON leaves of different types other than null", "array kinds", "composite keys with more than two value components"],
}
