//go:build verif

package client

// C18 (numeric fidelity only): export writes the exact decimal of an int64 / the shortest round-tripping
// decimal of a float; import decodes the file with encoding/json (no UseNumber) into map[string]any, so a
// number arrives as the correctly rounded float64 and is converted by getInt64 / getFloat64 / getFloat32.

// VerifH_C18_Int: import(export(x)) == x for int64.
// conf class: 0 = |x| <= 2^53 (exactly representable), 1 = |x| > 2^53 (class of known finding C18-int-above-2p53)
func VerifH_C18_Int() {
	x := vI64("x")
	small := vAnd(x >= -(1<<53), x <= 1<<53)
	if vConfInt("class") == 0 {
		vAssume(small)
	} else {
		vAssume(!small)
	}
	var viaJSON any = float64(x) // what json.Decoder hands to basicImport for the exact decimal of x
	got, err := getInt64(viaJSON)
	vCover("converted")
	vAssert(err == nil, "no-error")
	vAssert(got == x, "int-preserved")
	vObserve("got", got)
}

// VerifH_C18_Float64: every float64 (non-NaN; NaN and Inf are not representable in JSON) survives
func VerifH_C18_Float64() {
	f := vF64("f")
	vAssume(f == f)
	var viaJSON any = f // strconv's shortest decimal parses back to the same float64
	got, err := getFloat64(viaJSON)
	vCover("converted")
	vAssert(err == nil, "no-error")
	vAssert(got == f, "float64-preserved")
}

// VerifH_C18_Float32: float32 values are exported through float64
func VerifH_C18_Float32() {
	g := vF32("g")
	vAssume(g == g)
	var viaJSON any = float64(g)
	got, err := getFloat32(viaJSON)
	vCover("converted")
	vAssert(err == nil, "no-error")
	vAssert(got == g, "float32-preserved")
}

// VerifH_C18_Reach — vacuity twin
func VerifH_C18_Reach() {
	x := vI64("x")
	got, _ := getInt64(any(float64(x)))
	vCover("end")
	vAssert(got != x, "reach-twin")
}
