//go:build verif

package client

// C13 (document identifiers) — the bytes a document's identifier is derived from (Document.Bytes, what GenerateDocID
// hashes together with the schema root) depend only on the field values: not on the order in which the fields were given,
// not on the iteration order of the input map, not on null versus omitted fields, not on whether the document was built
// from a map, from JSON text or field by field. The real NewDocFromMap / NewDocFromJSON / Set / toMap run; the canonical
// CBOR encoder and the hashes are models (an injective serialisation with the map keys in sorted order; see props).

import (
	"sort"

	"github.com/fxamacker/cbor/v2"
	"github.com/ipfs/go-cid"
)

// model of cbor's canonical EncMode: maps are serialised with their keys in sorted order, everything else canonically
type dEncMode struct{ cbor.EncMode }

func (dEncMode) Marshal(v any) ([]byte, error) {
	m, ok := v.(map[string]any)
	if !ok {
		return vCanonBytes(v), nil
	}
	// (the keys in sorted order; the field names of this harness are probed instead of ranging over the map, so that the
	// model itself adds no map-iteration choices to the exploration)
	var keys []string
	for _, k := range []string{"age", "flag", "name"} {
		if _, ok := m[k]; ok {
			keys = append(keys, k)
		}
	}
	vBound(len(keys) == len(m), "only the fields of the harness")
	sort.Strings(keys)
	out := []byte{0xa0 + byte(len(keys))}
	for _, k := range keys {
		out = append(out, byte(len(k)))
		out = append(out, k...)
		val := vCanonBytes(m[k])
		out = append(out, byte(len(val)))
		out = append(out, val...)
	}
	return out, nil
}

// redirect targets inside the solver run
func dEncModeOf(o cbor.EncOptions) (cbor.EncMode, error)   { return dEncMode{}, nil }
func dFixedCid(b []byte) (cid.Cid, error)                  { return cid.Cid{}, nil }
func dFixedDocID(c cid.Cid) DocID                          { return DocID{} }

// vCanonBytes natively: never reached (the real encoder runs natively)
func vCanonBytes(v any) []byte { panic("vCanonBytes is an intrinsic of the symbolic run") }

func dDefinition() CollectionDefinition {
	def := CollectionDefinition{
		Version: CollectionVersion{Name: "T", VersionID: "sv1", CollectionID: "c1", IsActive: true},
		Schema:  SchemaDescription{Name: "T", VersionID: "sv1", Root: "sv1"},
	}
	for _, f := range []struct {
		n string
		k FieldKind
	}{{"name", FieldKind_NILLABLE_STRING}, {"age", FieldKind_NILLABLE_INT}, {"flag", FieldKind_NILLABLE_BOOL}} {
		def.Schema.Fields = append(def.Schema.Fields, SchemaFieldDescription{Name: f.n, Kind: f.k, Typ: LWW_REGISTER})
		def.Version.Fields = append(def.Version.Fields, CollectionFieldDescription{Name: f.n})
	}
	return def
}

func dEqual(a, b []byte) bool {
	if len(a) != len(b) {
		return false
	}
	for i := range a {
		if a[i] != b[i] {
			return false
		}
	}
	return true
}

// VerifH_C13_DocBytes — three field values (each possibly null); two documents built in different ways from the same
// values have the same identifier bytes, two documents differing in a value have different ones.
// conf: way (0: map vs map with another key insertion order and explicit nulls; 1: map vs field-by-field Set in another
// order; 2: map vs JSON text — concrete values)
func VerifH_C13_DocBytes() {
	def := dDefinition()
	way := vConfInt("way")
	name := string([]byte{'a' + vU8("name")%26})
	age := int64(vI8("age"))
	flag := vBool("flag")
	if way == 2 {
		name, age, flag = "a", 7, true
	}
	nullName, nullAge, nullFlag := vBool("name-null"), vBool("age-null"), vBool("flag-null")
	// document A: a map holding only the non-null fields
	ma := map[string]any{}
	if !nullName {
		ma["name"] = name
	}
	if !nullAge {
		ma["age"] = age
	}
	if !nullFlag {
		ma["flag"] = flag
	}
	a, err := NewDocFromMap(ma, def)
	vAssert(err == nil, "document-builds")
	if err != nil {
		return
	}
	ba, err := a.Bytes()
	vAssert(err == nil, "document-builds")
	var b *Document
	switch way {
	case 0:
		// the same values, keys inserted in the opposite order, null fields given explicitly
		mb := map[string]any{}
		if nullFlag {
			mb["flag"] = nil
		} else {
			mb["flag"] = flag
		}
		if nullAge {
			mb["age"] = nil
		} else {
			mb["age"] = age
		}
		if nullName {
			mb["name"] = nil
		} else {
			mb["name"] = name
		}
		b, err = NewDocFromMap(mb, def)
	case 1:
		b, err = NewDocFromMap(map[string]any{}, def)
		if err == nil && !nullFlag {
			err = b.Set("flag", flag)
		}
		if err == nil && !nullAge {
			err = b.Set("age", age)
		}
		if err == nil && !nullName {
			err = b.Set("name", name)
		}
	default:
		js := "{"
		sep := ""
		if !nullFlag {
			js += `"flag": true`
			sep = ", "
		} else {
			js += `"flag": null`
			sep = ", "
		}
		if !nullAge {
			js += sep + `"age": 7`
		}
		if !nullName {
			js += sep + `"name": "a"`
		}
		b, err = NewDocFromJSON([]byte(js+"}"), def)
	}
	vAssert(err == nil, "document-builds")
	if err != nil {
		return
	}
	bb, err := b.Bytes()
	vAssert(err == nil, "document-builds")
	vCover("built")
	vAssert(dEqual(ba, bb), "same-values-same-identifier-bytes")
	// a document with another age has other bytes
	if !nullAge && way == 1 {
		mc := map[string]any{"age": age + 1}
		if !nullName {
			mc["name"] = name
		}
		if !nullFlag {
			mc["flag"] = flag
		}
		c, cerr := NewDocFromMap(mc, def)
		if cerr == nil {
			bc, _ := c.Bytes()
			vAssert(!dEqual(ba, bc), "different-values-different-identifier-bytes")
		}
	}
	vObserve("equal", dEqual(ba, bb))
}
