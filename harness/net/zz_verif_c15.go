//go:build verif

package net

// C15 (safety core) — the replicator retry ledger: every commit pushed to a replicator either arrives or stays
// owed in the peerstore until a retry delivers it, over every sequence of commits, failed / successful pushes,
// retry rounds and commits arriving while a retried push is on the wire.
//
// Real code run: server.pushLog (its failure handling), Peer.handleReplicatorFailure, updateReplicatorStatus,
// createIfNotExistsReplicatorRetry, Peer.retryReplicators, setReplicatorAsRetrying, Peer.retryReplicator,
// Peer.retryDoc, Peer.getHeads, Peer.handleCompletedReplicatorRetry, setReplicatorNextRetry,
// deleteReplicatorRetryIfNoMoreDocs, the peerstore / headstore keys and the namespaced stores.
//
// Environment: the network push (dial + gRPC invoke inside pushLog) is replaced, through a source patch the
// runner regenerates from the current net/client.go on every run, by verifPush: its outcome is an input, and
// it is the point where "concurrent" commits are injected. `go p.retryReplicator(...)` is replaced the same
// way by verifSpawn (the retry runs when the harness says so: one schedule of the goroutine). The database is
// the transactional store model (kvtxn); the receiving node is "a push of commit v of a document delivers
// every commit of that document up to v" (its DAG sync fetches the ancestors).

import (
	"bytes"
	"context"
	"encoding/json"
	"errors"
	"sync"
	"sync/atomic"
	"time"

	"github.com/fxamacker/cbor/v2"
	"github.com/ipfs/boxo/blockservice"
	"github.com/ipfs/boxo/blockstore"
	"github.com/ipfs/boxo/exchange"
	blocks "github.com/ipfs/go-block-format"
	"github.com/ipfs/go-cid"
	"github.com/ipld/go-ipld-prime/datamodel"
	"github.com/ipld/go-ipld-prime/linking"
	cidlink "github.com/ipld/go-ipld-prime/linking/cid"
	"github.com/libp2p/go-libp2p/core/host"
	"github.com/libp2p/go-libp2p/core/peer"
	"github.com/libp2p/go-libp2p/core/peerstore"
	"github.com/multiformats/go-multiaddr"
	"github.com/sourcenetwork/corekv"
	"github.com/sourcenetwork/immutable"
	grpcpeer "google.golang.org/grpc/peer"

	"github.com/sourcenetwork/defradb/client"
	"github.com/sourcenetwork/defradb/event"
	"github.com/sourcenetwork/defradb/internal/core"
	coreblock "github.com/sourcenetwork/defradb/internal/core/block"
	"github.com/sourcenetwork/defradb/internal/core/crdt"
	"github.com/sourcenetwork/defradb/internal/datastore"
	"github.com/sourcenetwork/defradb/internal/keys"
)

// vMutexHeld reports whether mu is currently locked. In symgo the mutex is ghost state and this is an
// intrinsic; natively TryLock tells.
func vMutexHeld(mu *sync.Mutex) bool {
	if mu.TryLock() {
		mu.Unlock()
		return false
	}
	return true
}

// ---- patched call sites ----

var verifPush func(evt event.Update, pid peer.ID) error
var verifSpawned []func()

func verifSpawn(f func()) { verifSpawned = append(verifSpawned, f) }
func verifSpawnPeer(pid peer.ID, f func(peer.ID)) {
	verifSpawned = append(verifSpawned, func() { f(pid) })
}

// ---- redirect targets (symgo only): peer ids are kept as their text ----

func lDecode(s string) (peer.ID, error) { return peer.ID(s), nil }
func lIDString(id peer.ID) string       { return string(id) }

type lNode struct {
	datamodel.Node
	blk *coreblock.Block
}

func lLoad(lsys *linking.LinkSystem, lc linking.LinkContext, lnk datamodel.Link, np datamodel.NodePrototype) (datamodel.Node, error) {
	c := lnk.(cidlink.Link).Cid
	for i := range lCur.tabCids {
		if lCur.tabCids[i] == c {
			return lNode{blk: lCur.tabBlocks[i]}, nil
		}
	}
	return nil, corekv.ErrNotFound
}

func lGetFromNode(nd datamodel.Node) (*coreblock.Block, error) { return nd.(lNode).blk, nil }

func lFakeCid(doc, ver int) cid.Cid {
	mh := make([]byte, 34)
	mh[0], mh[1] = 0x12, 0x20
	mh[2], mh[3] = byte(doc+1), byte(ver)
	return cid.NewCidV1(cid.DagCBOR, mh)
}

// ---- the sending node ----

const lPeer = "12D3KooWGmBVYiRDEh6QhWdpjSu3FxkGpyMWYQkdaFF36WP1qctd"

// the collection: its id is the id of its first version; a second version exists after a schema patch
const lRoot = "bafkreiverifcollectionv1"

var lVersions = []string{lRoot, "bafkreiverifcollectionv2"}
var lDocIDs = []string{"bae-verif-doc-0", "bae-verif-doc-1"}

type lCol struct {
	client.Collection
	v client.CollectionVersion
}

func (c lCol) Version() client.CollectionVersion { return c.v }
func (c lCol) SchemaRoot() string                { return lRoot }

type lTxn struct {
	client.Store
	*datastore.BasicTxn
}

// collections of the sending node by version id, as db.getCollections answers (ErrNotFound for an unknown version)
func (t *lTxn) GetCollections(ctx context.Context, opts client.CollectionFetchOptions) ([]client.Collection, error) {
	var out []client.Collection
	for _, v := range lVersions {
		if opts.VersionID.HasValue() && opts.VersionID.Value() != v {
			continue
		}
		out = append(out, lCol{v: client.CollectionVersion{Name: "T", VersionID: v, CollectionID: lRoot, IsActive: v == lVersions[len(lVersions)-1]}})
	}
	if opts.VersionID.HasValue() && len(out) == 0 {
		return nil, corekv.ErrNotFound
	}
	return out, nil
}

type lDB struct {
	store *vStore
	next  atomic.Uint64
}

func (d *lDB) NewTxn(ctx context.Context, readOnly bool) (client.Txn, error) {
	// (the real DB hands out transaction ids from an atomic counter: safe for concurrent use)
	id := d.next.Add(1)
	return &lTxn{BasicTxn: datastore.NewTxnFrom(ctx, d.store, id, readOnly)}, nil
}
func (d *lDB) GetNodeIdentityToken(ctx context.Context, audience immutable.Option[string]) ([]byte, error) {
	return nil, nil
}
func (d *lDB) Rootstore() corekv.TxnStore { return d.store }

type lEnv struct {
	p    *Peer
	db   *lDB
	ctx  context.Context
	pid  peer.ID
	pids []peer.ID

	version, delivered [2]int
	heads              [2]cid.Cid
	tabCids            []cid.Cid
	tabBlocks          []*coreblock.Block
	tabDoc, tabVer     []int

	quiescent bool
	nested    int // commits that may still arrive while a retried push is on the wire
	depth     int
}

var lCur *lEnv

var lErrUnreachable = errors.New("verif: peer unreachable")

func lNewEnv() *lEnv {
	e := &lEnv{db: &lDB{store: vNewStore()}, ctx: context.Background()}
	lCur = e
	pid, err := peer.Decode(lPeer)
	if err != nil {
		panic("peer.Decode")
	}
	e.pid = pid
	p := &Peer{
		ctx: e.ctx,
		db:  e.db,
		// a retry is always due: the back-off schedule is outside this check
		retryIntervals:   []time.Duration{-time.Hour, -time.Hour},
		handleRetryMutex: &sync.Mutex{},
	}
	p.server = &server{
		peer:        p,
		replicators: map[string]map[peer.ID]struct{}{lRoot: {pid: {}}},
	}
	e.p = p
	rep := client.Replicator{Info: peer.AddrInfo{ID: pid}, CollectionIDs: []string{lRoot}, Status: client.ReplicatorStatusActive}
	b, err := json.Marshal(rep)
	if err != nil {
		panic("json.Marshal")
	}
	if err := datastore.PeerstoreFrom(e.db.store).Set(e.ctx, keys.NewReplicatorKey(pid.String()).Bytes(), b); err != nil {
		panic("replicator record")
	}
	verifSpawned = nil
	verifPush = e.push
	e.db.store.onCommit = e.duringCommit
	return e
}

// between the reads of a transaction of the retry bookkeeping and its commit, something else may run to completion:
// conf nested=4: a commit whose push fails (its failure handling waits for the retry mutex, so this cannot happen
// while the mutex is held); conf nested=5: a round of the retry loop (retryReplicators; the retries it starts run later).
// A nested operation that would have to wait for a mutex held by the interrupted one is not a schedule of this
// sequential form: the solver run drops such paths (counted as blocked).
func (e *lEnv) duringCommit() {
	if e.quiescent || e.depth != 0 || e.nested == 0 {
		return
	}
	switch vConfInt("nested") {
	case 4:
		if vMutexHeld(e.p.handleRetryMutex) || !vBool("commit-during-transaction") {
			return
		}
		e.nested--
		e.depth++
		e.commit(vChoose("nested-doc", 2))
		e.depth--
	case 5:
		if !vBool("retry-loop-during-transaction") {
			return
		}
		e.nested--
		e.depth++
		vObserve("tick-start", 0)
		e.p.retryReplicators(e.ctx)
		e.depth--
	}
}

// a commit on document d of the sending node: a new composite block on top of the current head, stored, made
// the head; then the first push to the replicator (what pushLogToReplicators starts for an update event)
func (e *lEnv) commit(d int) {
	evt := e.commitEvt(d)
	_ = e.p.server.pushLog(evt, e.pid)
}

// the commit without its first push: the update event that the push is made for
func (e *lEnv) commitEvt(d int) event.Update {
	e.version[d]++
	v := e.version[d]
	sv := lVersions[vChoose("schema-version", len(lVersions))]
	delta := &crdt.DocCompositeDelta{DocID: []byte(lDocIDs[d]), Priority: uint64(v), SchemaVersionID: sv, Status: client.Active}
	var parents []cid.Cid
	if v > 1 {
		parents = append(parents, e.heads[d])
	}
	blk := coreblock.New(delta, nil, parents...)
	raw, err := blk.Marshal()
	if err != nil {
		panic("Marshal")
	}
	var c cid.Cid
	if vSymbolic() {
		c = lFakeCid(d, v)
	} else {
		lnk, err := blk.GenerateLink()
		if err != nil {
			panic("GenerateLink")
		}
		c = lnk.Cid
		b, err := blocks.NewBlockWithCid(raw, c)
		if err != nil {
			panic("NewBlockWithCid")
		}
		if err := datastore.BlockstoreFrom(e.db.store).Put(e.ctx, b); err != nil {
			panic("blockstore put")
		}
	}
	e.tabCids, e.tabBlocks = append(e.tabCids, c), append(e.tabBlocks, blk)
	e.tabDoc, e.tabVer = append(e.tabDoc, d), append(e.tabVer, v)
	hs := datastore.HeadstoreFrom(e.db.store)
	hk := keys.HeadstoreDocKey{DocID: lDocIDs[d], FieldID: core.COMPOSITE_NAMESPACE}
	if err := hs.Set(e.ctx, hk.WithCid(c).Bytes(), []byte{byte(v)}); err != nil {
		panic("head set")
	}
	if v > 1 {
		if err := hs.Delete(e.ctx, hk.WithCid(e.heads[d]).Bytes()); err != nil {
			panic("head delete")
		}
	}
	e.heads[d] = c
	vObserve("commit", d*100+v)
	return event.Update{DocID: lDocIDs[d], Cid: c, CollectionID: lRoot, Block: raw}
}

// the network push
func (e *lEnv) push(evt event.Update, pid peer.ID) error {
	i := -1
	for k := range e.tabCids {
		if e.tabCids[k] == evt.Cid {
			i = k
		}
	}
	vAssert(i >= 0, "pushed-commit-exists")
	if i < 0 {
		return lErrUnreachable
	}
	d, v := e.tabDoc[i], e.tabVer[i]
	vAssert(pid == e.pid, "pushed-to-the-replicator")
	vAssert(evt.DocID == lDocIDs[d], "push-names-the-document")
	// a retried push is the push the first attempt would have made
	vAssert(evt.CollectionID == lRoot, "push-carries-the-collection-id")
	vObserve("push", d*100+v)
	vObserve("retry", evt.IsRetry)
	// while a retried push is on the wire, another commit may be made and pushed
	if evt.IsRetry && vConfInt("nested") < 4 && !e.quiescent && e.depth == 0 && e.nested > 0 && vBool("commit-during-retry") {
		e.nested--
		nd := d
		switch vConfInt("nested") {
		case 1: // a commit on the other document
			nd = 1 - d
		case 2: // a commit on the document being retried
		default:
			nd = vChoose("nested-doc", 2)
		}
		e.depth++
		e.commit(nd)
		e.depth--
	}
	ok := e.quiescent || vBool("push-ok")
	vObserve("ok", ok)
	if !ok {
		return lErrUnreachable
	}
	if v > e.delivered[d] {
		e.delivered[d] = v
	}
	return nil
}

// one round of the retry loop (handleReplicatorRetries calls retryReplicators every retryLoopInterval), and the
// retries it started
func (e *lEnv) tick() {
	vObserve("tick", 0)
	e.p.retryReplicators(e.ctx)
	q := verifSpawned
	verifSpawned = nil
	for _, f := range q {
		f()
	}
}

// VerifH_C15_Ledger — conf: events (length of the history), nested (0: no commit during a retried push,
// 1: on the other document, 2: on the document being retried, 3: either, 4 / 5: a commit / a round of the retry loop between the
// reads and the commit of a transaction of the retry bookkeeping), rounds (retry rounds after traffic stops)
func VerifH_C15_Ledger() {
	e := lNewEnv()
	n := vConfInt("events")
	if vConfInt("nested") != 0 {
		e.nested = 1
	}
	for i := 0; i < n; i++ {
		if vChoose("event", 2) == 0 {
			e.commit(vChoose("doc", 2))
		} else {
			e.tick()
		}
	}
	// traffic stops and the peer is reachable
	e.quiescent = true
	for r := 0; r < vConfInt("rounds"); r++ {
		e.tick()
	}
	vCover("quiescent")
	for d := range e.version {
		vObserve("version", e.version[d])
		vObserve("delivered", e.delivered[d])
		if e.delivered[d] != e.version[d] {
			// "eventually" is bounded here by the number of rounds: a debt that is still recorded and due for another
			// round is a bound of the check, a debt that nothing will retry any more is a violation
			vBound(!e.stillOwedAndRetriable(d), "retry-still-pending-after-the-last-round")
		}
		vAssert(e.delivered[d] == e.version[d], "every-commit-delivered-once-the-peer-is-reachable")
	}
}

// the ledger still records that document d is owed to the replicator and the retry loop will pick it up
func (e *lEnv) stillOwedAndRetriable(d int) bool {
	ps := datastore.PeerstoreFrom(e.db.store)
	peerID := e.pid.String()
	ok, err := ps.Has(e.ctx, keys.NewReplicatorRetryDocIDKey(peerID, lDocIDs[d]).Bytes())
	if err != nil || !ok {
		return false
	}
	b, err := ps.Get(e.ctx, keys.NewReplicatorRetryIDKey(peerID).Bytes())
	if err != nil {
		return false
	}
	r := retryInfo{}
	if cbor.Unmarshal(b, &r) != nil {
		return false
	}
	return !r.Retrying
}

// VerifH_C15_Reach — vacuity twin: a failed push followed by a retry round reaches the retried push
func VerifH_C15_Reach() {
	e := lNewEnv()
	e.commit(0)
	e.tick()
	vCover("end")
	vAssert(e.delivered[0] == 0, "reach-twin")
}

// ---- O2: routing of update events to replicators (server.replicators) ----

type lExchange struct{ exchange.Interface }

func (lExchange) NotifyNewBlocks(ctx context.Context, blks ...blocks.Block) error { return nil }

type lBlockService struct{ blockservice.BlockService }

func (lBlockService) Exchange() exchange.Interface { return lExchange{} }

type lPeerstore struct{ peerstore.Peerstore }

func (lPeerstore) ClearAddrs(p peer.ID)                                               {}
func (lPeerstore) AddAddrs(p peer.ID, addrs []multiaddr.Multiaddr, ttl time.Duration) {}

type lHost struct{ host.Host }

func (lHost) Peerstore() peerstore.Peerstore                      { return lPeerstore{} }
func (lHost) Connect(ctx context.Context, pi peer.AddrInfo) error { return nil }

// redirect target of blocks.NewBlock (hashes its argument; only handed to the exchange stub)
func lNewBlock(data []byte) *blocks.BasicBlock {
	b, _ := blocks.NewBlockWithCid(data, lFakeCid(200, 0))
	return b
}

const lPeer2 = "12D3KooWQYdCmUjAX8k6XWRd5FYGo7boW4BnuzH44UUoQ1iesr4V"

var lCols = []string{lRoot, "bafkreiverifothercollection"}

func lSubset(mask int) map[string]struct{} {
	m := map[string]struct{}{}
	for i, c := range lCols {
		if mask&(1<<uint(i)) != 0 {
			m[c] = struct{}{}
		}
	}
	return m
}

// the peers an update event of collection c is pushed to
func (e *lEnv) routed(c string) [2]bool {
	var got [2]bool
	pids := e.pids
	verifPush = func(evt event.Update, pid peer.ID) error {
		vAssert(evt.CollectionID == c, "routed-event-unchanged")
		for i := range pids {
			if pids[i] == pid {
				vAssert(!got[i], "pushed-once-per-replicator")
				got[i] = true
			}
		}
		return nil
	}
	e.p.pushLogToReplicators(event.Update{DocID: lDocIDs[0], Cid: lFakeCid(0, 1), CollectionID: c, Block: []byte{1, 2, 3}})
	q := verifSpawned
	verifSpawned = nil
	for _, f := range q {
		f()
	}
	verifPush = e.push
	return got
}

// VerifH_C15_Routing — conf: calls (number of updateReplicators calls), restart (1: afterwards the node restarts:
// a new server whose routing table is rebuilt by loadAndPublishReplicators from the persisted replicator records)
func VerifH_C15_Routing() {
	e := lNewEnv()
	p2, err := peer.Decode(lPeer2)
	if err != nil {
		panic("peer.Decode")
	}
	e.pids = []peer.ID{e.pid, p2}
	e.p.host = lHost{}
	e.p.blockService = lBlockService{}
	e.p.server.replicators = map[string]map[peer.ID]struct{}{}
	ps := datastore.PeerstoreFrom(e.db.store)
	// the replicator record of lNewEnv is not part of this scenario
	if err := ps.Delete(e.ctx, keys.NewReplicatorKey(e.pid.String()).Bytes()); err != nil {
		panic("delete")
	}
	var want [2]int // collections each peer replicates (bit mask), as last configured
	n := vConfInt("calls")
	for i := 0; i < n; i++ {
		who := vChoose("peer", 2)
		mask := vChoose("collections", 4)
		// what SetReplicator / DeleteReplicator do: persist the record (or delete it), then update the routing table
		key := keys.NewReplicatorKey(e.pids[who].String()).Bytes()
		if mask == 0 {
			if err := ps.Delete(e.ctx, key); err != nil {
				panic("delete")
			}
		} else {
			rep := client.Replicator{Info: peer.AddrInfo{ID: e.pids[who]}, Status: client.ReplicatorStatus(vChoose("status", 2))}
			for c := range lCols {
				if mask&(1<<uint(c)) != 0 {
					rep.CollectionIDs = append(rep.CollectionIDs, lCols[c])
				}
			}
			b, err := json.Marshal(rep)
			if err != nil {
				panic("json.Marshal")
			}
			if err := ps.Set(e.ctx, key, b); err != nil {
				panic("set")
			}
		}
		e.p.server.updateReplicators(peer.AddrInfo{ID: e.pids[who]}, lSubset(mask))
		want[who] = mask
	}
	if vConfInt("restart") != 0 {
		e.p.server = &server{peer: e.p, replicators: map[string]map[peer.ID]struct{}{}}
		vAssert(e.p.loadAndPublishReplicators(e.ctx) == nil, "load-replicators-no-error")
	}
	vCover("configured")
	for c := range lCols {
		got := e.routed(lCols[c])
		for who := range e.pids {
			vObserve("routed", got[who])
			vAssert(got[who] == (want[who]&(1<<uint(c)) != 0), "update-events-reach-exactly-the-configured-replicators")
		}
	}
}

// ---- O3: the receiving side of a replicator push ----

// a push that the receiver acknowledges has been synchronised and handed to the merge: processPushlog returns success
// only after syncDAG ran for the pushed block and a merge event for the pushed head was published — whether or not the
// head block is already in the receiver's block store (a first attempt may have stored it and died before the merge).

type lAddr string

func (a lAddr) Network() string { return "libp2p" }
func (a lAddr) String() string  { return string(a) }

type lRecvBlockstore struct {
	blockstore.Blockstore
	known bool
}

func (b lRecvBlockstore) Has(ctx context.Context, c cid.Cid) (bool, error) { return b.known, nil }

type lRecvBlockService struct {
	blockservice.BlockService
	known  bool
	fail   bool
	synced *int
	// every block handed over for storage with the cid it is to be filed under (C04: content addressing)
	filed *[]blocks.Block
}

func (s lRecvBlockService) Blockstore() blockstore.Blockstore { return lRecvBlockstore{known: s.known} }

// natively syncDAG runs for real on a block without links: it stores the block through the block service
func (s lRecvBlockService) AddBlock(ctx context.Context, b blocks.Block) error {
	if b != nil && s.filed != nil {
		*s.filed = append(*s.filed, b)
	}
	*s.synced++
	if s.fail {
		return lErrUnreachable
	}
	return nil
}

// redirect target of syncDAG inside the solver run (storing a node encodes it with dag-cbor)
func lSyncDAG(ctx context.Context, bs blockservice.BlockService, block *coreblock.Block) error {
	if lRecvRaw != nil {
		// the link system encodes the decoded block again and files it under the hash of those bytes
		b, err := blocks.NewBlockWithCid(lRecvRaw, lRecvOwn)
		if err != nil {
			return err
		}
		return bs.AddBlock(ctx, b)
	}
	return bs.AddBlock(ctx, nil)
}

var lRecvRaw []byte
var lRecvOwn cid.Cid

type lRecvBus struct {
	event.Bus
	msgs []event.Message
}

func (b *lRecvBus) Publish(msg event.Message) { b.msgs = append(b.msgs, msg) }

var lRecvBlock *coreblock.Block

// redirect target of coreblock.GetFromBytes inside the solver run
func lGetFromBytes(b []byte) (*coreblock.Block, error) { return lRecvBlock, nil }

// VerifH_C15_Receive — inputs: the head block is already stored; the synchronisation fails
func VerifH_C15_Receive() {
	known, fail := vBool("head-already-stored"), vBool("sync-fails")
	synced := 0
	bus := &lRecvBus{}
	p := &Peer{ctx: context.Background(), bus: bus, blockService: lRecvBlockService{known: known, fail: fail, synced: &synced}}
	s := &server{peer: p}
	p.server = s
	const docID = "bae-0b7a5c3e-1c5d-5e3a-9c1b-0f6f1f4a1a01"
	blk := coreblock.New(&crdt.DocCompositeDelta{DocID: []byte(docID), Priority: 1, SchemaVersionID: lRoot, Status: client.Active}, nil)
	lRecvBlock = blk
	raw, err := blk.Marshal()
	if err != nil {
		panic("Marshal")
	}
	head := lFakeCid(0, 1)
	if !vSymbolic() {
		lnk, err := blk.GenerateLink()
		if err != nil {
			panic("GenerateLink")
		}
		head = lnk.Cid
	}
	ctx := grpcpeer.NewContext(context.Background(), &grpcpeer.Peer{Addr: lAddr(lPeer)})
	req := &pushLogRequest{DocID: docID, CID: head.Bytes(), CollectionID: lRoot, Creator: lPeer, Block: raw}
	_, err = s.processPushlog(ctx, req, true)
	vCover("received")
	vObserve("acknowledged", err == nil)
	if err != nil {
		vAssert(fail, "push-rejected-only-when-the-synchronisation-fails")
		vAssert(len(bus.msgs) == 0, "no-merge-event-for-a-rejected-push")
		return
	}
	vAssert(synced == 1 && !fail, "acknowledged-push-was-synchronised")
	vAssert(len(bus.msgs) == 1, "acknowledged-push-is-handed-to-the-merge-once")
	if len(bus.msgs) == 1 {
		m, ok := bus.msgs[0].Data.(event.Merge)
		vAssert(ok && bus.msgs[0].Name == event.MergeName, "merge-event")
		if ok {
			vAssert(m.DocID == docID && m.Cid == head && m.CollectionID == lRoot, "merge-event-names-the-pushed-head")
		}
	}
}

// VerifH_C16_ReplicatorMap — C16: the routing table of the replicators is used by an update event being pushed
// (Peer.pushLogToReplicators, from the goroutine that handles the event bus) while a replicator is being configured
// (server.updateReplicators, from an API call): two real goroutines, every schedule within the bound, the
// happens-before race detector on the table.
func VerifH_C16_ReplicatorMap() {
	e := lNewEnv()
	p2, err := peer.Decode(lPeer2)
	if err != nil {
		panic("peer.Decode")
	}
	e.pids = []peer.ID{e.pid, p2}
	e.p.host = lHost{}
	e.p.blockService = lBlockService{}
	e.p.server.replicators = map[string]map[peer.ID]struct{}{}
	// the first replicator already receives the first collection
	e.p.server.updateReplicators(peer.AddrInfo{ID: e.pid}, lSubset(1))
	verifPush = func(evt event.Update, pid peer.ID) error { return nil }
	mask := vChoose("collections", 4)
	vRunThreads(
		func() {
			e.p.pushLogToReplicators(event.Update{DocID: lDocIDs[0], Cid: lFakeCid(0, 1), CollectionID: lCols[0], Block: []byte{1, 2, 3}})
		},
		func() { e.p.server.updateReplicators(peer.AddrInfo{ID: p2}, lSubset(mask)) },
	)
	verifSpawned = nil
	verifPush = e.push
	vCover("ran")
	_, has := e.p.server.replicators[lCols[0]][e.pid]
	vAssert(has, "configured-replicator-stays-configured")
	vObserve("done", true)
}

// VerifH_C04_ReceivedBlockFiledUnderItsHash — C04: a pushed commit whose message claims a cid that is not the hash of the
// bytes it carries (altered in transit, or a forged message) is never filed under the claimed cid: whatever the real
// processPushlog hands to the block service is filed under the hash of its own bytes.
func VerifH_C04_ReceivedBlockFiledUnderItsHash() {
	synced := 0
	var filed []blocks.Block
	bus := &lRecvBus{}
	p := &Peer{ctx: context.Background(), bus: bus, blockService: lRecvBlockService{known: vBool("head-already-stored"), synced: &synced, filed: &filed}}
	s := &server{peer: p}
	p.server = s
	const docID = "bae-0b7a5c3e-1c5d-5e3a-9c1b-0f6f1f4a1a01"
	blk := coreblock.New(&crdt.DocCompositeDelta{DocID: []byte(docID), Priority: 1, SchemaVersionID: lRoot, Status: client.Active}, nil)
	lRecvBlock = blk
	raw, err := blk.Marshal()
	if err != nil {
		panic("Marshal")
	}
	own, claimed := lFakeCid(0, 1), lFakeCid(0, 2)
	if !vSymbolic() {
		lnk, err := blk.GenerateLink()
		if err != nil {
			panic("GenerateLink")
		}
		own = lnk.Cid
		// the cid of another commit
		other := coreblock.New(&crdt.DocCompositeDelta{DocID: []byte(docID), Priority: 7, SchemaVersionID: lRoot, Status: client.Active}, nil)
		ol, err := other.GenerateLink()
		if err != nil {
			panic("GenerateLink")
		}
		claimed = ol.Cid
	}
	if !vBool("message-claims-another-cid") {
		claimed = own
	}
	lRecvRaw, lRecvOwn = raw, own
	ctx := grpcpeer.NewContext(context.Background(), &grpcpeer.Peer{Addr: lAddr(lPeer)})
	req := &pushLogRequest{DocID: docID, CID: claimed.Bytes(), CollectionID: lRoot, Creator: lPeer, Block: raw}
	_, _ = s.processPushlog(ctx, req, true)
	vCover("received")
	for _, b := range filed {
		if bytes.Equal(b.RawData(), raw) {
			vAssert(b.Cid() == own, "received-bytes-are-filed-under-the-hash-of-their-own-bytes")
		}
	}
	vObserve("filed", len(filed) <= 2)
}

// VerifH_C15_ConcurrentFailures — two commits on different documents whose first pushes fail at the same time: the two
// failure handlers (server.pushLog -> Peer.handleReplicatorFailure, real transactions over the store model) run as two
// goroutines under every schedule within the bound; afterwards the peer is reachable and the retry loop runs: both
// commits are delivered (a failure handler that loses its record to a transaction conflict leaves a commit that
// nothing retries).
func VerifH_C15_ConcurrentFailures() {
	e := lNewEnv()
	evt0, evt1 := e.commitEvt(0), e.commitEvt(1)
	verifPush = func(evt event.Update, pid peer.ID) error { return lErrUnreachable }
	vRunThreads(
		func() { _ = e.p.server.pushLog(evt0, e.pid) },
		func() { _ = e.p.server.pushLog(evt1, e.pid) },
	)
	verifPush = e.push
	e.quiescent = true
	for r := 0; r < vConfInt("rounds"); r++ {
		e.tick()
	}
	vCover("quiescent")
	for d := range e.version {
		if e.delivered[d] != e.version[d] {
			vBound(!e.stillOwedAndRetriable(d), "retry-still-pending-after-the-last-round")
		}
		vAssert(e.delivered[d] == e.version[d], "every-commit-delivered-once-the-peer-is-reachable")
	}
	vObserve("delivered", e.delivered[0]+e.delivered[1])
}
