//go:build verif

package planner

// C10 at the request level — the query kernel (zz_verif_query.go) with document access control switched on: a request
// over a store holding a document the requester may not read returns exactly what the same request returns over the
// twin store without that document. Listing, filters, order + limit, joins from both sides, relation filters and
// _count through a relation.

import (
	"context"
	"strconv"

	"github.com/sourcenetwork/immutable"

	"github.com/sourcenetwork/defradb/acp/dac"
	acpIdentity "github.com/sourcenetwork/defradb/acp/identity"
	acpTypes "github.com/sourcenetwork/defradb/acp/types"
	"github.com/sourcenetwork/defradb/client"
	"github.com/sourcenetwork/defradb/client/request"
)

// the ACP system as a table: every document is registered; private[id] documents are not readable
type qACP struct {
	dac.DocumentACP
	private map[string]bool
	asked   int
}

func (a *qACP) IsDocRegistered(ctx context.Context, policyID, resourceName, docID string) (bool, error) {
	a.asked++
	return true, nil
}

func (a *qACP) CheckDocAccess(ctx context.Context, perm acpTypes.DocumentResourcePermission, actorID, policyID, resourceName, docID string) (bool, error) {
	a.asked++
	return !a.private[docID], nil
}

// qEqual: structural equality of rendered results (values may be symbolic: no formatting)
func qEqual(a, b any) bool {
	switch x := a.(type) {
	case nil:
		return b == nil
	case string:
		y, ok := b.(string)
		return ok && x == y
	case int64:
		y, ok := b.(int64)
		return ok && x == y
	case int:
		y, ok := b.(int)
		return ok && x == y
	case bool:
		y, ok := b.(bool)
		return ok && x == y
	case map[string]any:
		y, ok := b.(map[string]any)
		if !ok || len(x) != len(y) {
			return false
		}
		// keys of the rendered shapes used here, in a fixed order
		for _, k := range []string{"name", "age", "model", "year", "city", "_count", "devices", "owner", "address", "user"} {
			xv, xok := x[k]
			yv, yok := y[k]
			if xok != yok || (xok && !qEqual(xv, yv)) {
				return false
			}
		}
		return true
	case []map[string]any:
		y, ok := b.([]map[string]any)
		if !ok || len(x) != len(y) {
			return false
		}
		for i := range x {
			if !qEqual(x[i], y[i]) {
				return false
			}
		}
		return true
	}
	return false
}

// VerifH_C10_Request — conf: q (request shape), idx (index bits as in the C09 harness), private (0: a user, 1: a device)
//
//	q=0  User(order: {age: ASC}, limit: 1) { name age }
//	q=1  User(filter: {age: {_gt: c}}) { name }
//	q=2  User { name devices { model } }
//	q=3  Device { model owner { name } }
//	q=4  User(filter: {devices: {year: {_gt: c}}}) { name }
//	q=5  User { name _count(devices: {}) }
//	q=6  Device(filter: {owner: {age: {_gt: c}}}) { model }
//	q=7  Device(order: {year: DESC}) { model year }
func VerifH_C10_Request() {
	q := vConfInt("q")
	idx := vConfInt("idx")
	privateDevice := vConfInt("private") != 0
	ages := [2]int64{qSmall("age"), qSmall("age")}
	type dev struct {
		year  int64
		model int
		owner int
	}
	devs := make([]dev, 2)
	for d := range devs {
		devs[d] = dev{year: qSmall("year"), model: vChoose("model", 2), owner: vChoose("owner", 3) - 1}
	}
	c := qSmall("c") - 1
	pu, pd := -1, -1
	if privateDevice {
		pd = vChoose("private-device", 2)
	} else {
		pu = vChoose("private-user", 2)
	}
	build := func(withPrivate bool) (*qEnv, *qACP) {
		e := qNewEnv(idx)
		acp := &qACP{private: map[string]bool{}}
		for _, col := range e.store.cols {
			col.def.Version.Policy = immutable.Some(client.PolicyDescription{ID: "pol1", ResourceName: col.def.Version.Name})
		}
		var d dac.DocumentACP = acp
		e.p = New(e.ctx, immutable.None[acpIdentity.Identity](), immutable.Some(d), e.store)
		for u, uid := range qUserIDs {
			if u == pu {
				acp.private[uid] = true
				if !withPrivate {
					continue
				}
			}
			e.putDoc("User", uid, map[string]any{"name": "U" + strconv.Itoa(u), "age": ages[u]})
		}
		for di := range devs {
			if di == pd {
				acp.private[qDeviceIDs[di]] = true
				if !withPrivate {
					continue
				}
			}
			f := map[string]any{"model": qModels[devs[di].model], "year": devs[di].year}
			if devs[di].owner >= 0 {
				f["owner_id"] = qUserIDs[devs[di].owner]
			}
			e.putDoc("Device", qDeviceIDs[di], f)
		}
		return e, acp
	}
	mk := func() *request.Select {
		gt := func(field string) map[string]any { return map[string]any{field: map[string]any{"_gt": c}} }
		flt := func(m map[string]any) request.Filterable {
			return request.Filterable{Filter: immutable.Some(request.Filter{Conditions: m})}
		}
		sub := func(name string, fields ...string) *request.Select {
			s := &request.Select{Field: request.Field{Name: name}}
			for _, f := range fields {
				s.Fields = append(s.Fields, qField(f))
			}
			return s
		}
		switch q {
		case 0:
			s := sub("User", "name", "age")
			s.OrderBy = immutable.Some(request.OrderBy{Conditions: []request.OrderCondition{{Fields: []string{"age"}, Direction: request.ASC}}})
			s.Limit = immutable.Some(uint64(1))
			return s
		case 1:
			s := sub("User", "name")
			s.Filterable = flt(gt("age"))
			return s
		case 2:
			s := sub("User", "name")
			s.Fields = append(s.Fields, sub("devices", "model"))
			return s
		case 3:
			s := sub("Device", "model")
			s.Fields = append(s.Fields, sub("owner", "name"))
			return s
		case 4:
			s := sub("User", "name")
			s.Filterable = flt(map[string]any{"devices": gt("year")})
			return s
		case 5:
			s := sub("User", "name")
			s.Fields = append(s.Fields, &request.Aggregate{Field: request.Field{Name: request.CountFieldName}, Targets: []*request.AggregateTarget{{HostName: "devices"}}})
			return s
		case 6:
			s := sub("Device", "model")
			s.Filterable = flt(map[string]any{"owner": gt("age")})
			return s
		default:
			s := sub("Device", "model", "year")
			s.OrderBy = immutable.Some(request.OrderBy{Conditions: []request.OrderCondition{{Fields: []string{"year"}, Direction: request.DESC}}})
			return s
		}
	}
	eA, acpA := build(true)
	resA, errA := eA.run(mk())
	eB, _ := build(false)
	resB, errB := eB.run(mk())
	vCover("ran")
	vBound(errB == nil, "the request runs on the twin store")
	vAssert(errA == nil, "request-no-error")
	if errA != nil || errB != nil {
		return
	}
	if acpA.asked > 0 {
		vCover("access-control-consulted")
	}
	if q == 0 && len(resA) == 1 && len(resB) == 1 {
		// (ties on the sort key: any of the tied documents may be the first; the sort key itself is determined)
		aa, _ := resA[0]["age"].(int64)
		bb, _ := resB[0]["age"].(int64)
		vAssert(aa == bb, "result-as-if-the-unreadable-document-did-not-exist")
	} else {
		vAssert(qEqual(resA, resB), "result-as-if-the-unreadable-document-did-not-exist")
	}
	vObserve("rows", len(resA))
}
