//go:build verif

package mapper

// C08.O6 — an aggregate is attached to the results of a rendered sibling selection when their targets are "equal"
// (tryGetTarget -> Targetable.equal -> Filter.equal -> deepEqualConditions): two filters are equal exactly when they are
// the same filter. The real Filter.equal on two filters built from symbolic parameters (three condition slots — field 0 with _gt and _lt, field 1 with _gt —
// each present or not, operands 0 or 1), in every map iteration order; the reference is the equality of the parameters.

import (
	"github.com/sourcenetwork/defradb/internal/connor"
)

type eParams struct {
	present [2][2]bool
	operand [2][2]int64
}

func eMk(tag string) eParams {
	var p eParams
	for f := 0; f < 2; f++ {
		for o := 0; o < 2; o++ {
			if f == 1 && o == 1 {
				continue // three condition slots per filter: field 0 with _gt and _lt, field 1 with _gt
			}
			p.present[f][o] = vChoose(tag+".present", 2) == 1
			if p.present[f][o] {
				p.operand[f][o] = int64(vU8(tag+".operand") & 1)
			}
		}
	}
	return p
}

var eOps = []string{"_gt", "_lt"}

func (p eParams) filter() *Filter {
	conds := map[connor.FilterKey]any{}
	for f := 0; f < 2; f++ {
		inner := map[connor.FilterKey]any{}
		for o := 0; o < 2; o++ {
			if p.present[f][o] {
				inner[&Operator{Operation: eOps[o]}] = p.operand[f][o]
			}
		}
		if len(inner) > 0 {
			conds[&PropertyIndex{Index: f}] = inner
		}
	}
	return &Filter{Conditions: conds}
}

func eSame(a, b eParams) bool {
	same := true
	for f := 0; f < 2; f++ {
		for o := 0; o < 2; o++ {
			if a.present[f][o] != b.present[f][o] {
				return false
			}
			if a.present[f][o] {
				same = vAnd(same, a.operand[f][o] == b.operand[f][o])
			}
		}
	}
	return same
}

// VerifH_C08_FilterEqual
func VerifH_C08_FilterEqual() {
	a, b := eMk("a"), eMk("b")
	fa, fb := a.filter(), b.filter()
	vCover("compared")
	got := fa.equal(fb)
	vAssert(got == eSame(a, b), "filters-are-equal-iff-they-are-the-same-filter")
	vAssert(got == fb.equal(fa), "filter-equality-is-symmetric")
	vObserve("equal", got)
}

// VerifH_C08_FilterEqualReach — vacuity twin
func VerifH_C08_FilterEqualReach() {
	a := eMk("a")
	vCover("end")
	vAssert(!a.filter().equal(a.filter()), "reach-twin")
}
