//go:build verif

package planner

// C03 at the request level: T(cid: c, docID: d) { <counter> } through the real mapper / planner (the wiring of the cid
// argument in selectNode / scanNode), the real VersionedFetcher and the CRDT merges, on a node that holds a history with
// two concurrent heads: the value at a commit is the sum of the increments of that commit and its ancestors, which at
// either head differs from the current value.

import (
	"context"
	"strconv"

	"github.com/fxamacker/cbor/v2"
	"github.com/sourcenetwork/corekv"
	"github.com/sourcenetwork/immutable"

	"github.com/sourcenetwork/defradb/acp/dac"
	acpIdentity "github.com/sourcenetwork/defradb/acp/identity"
	acpTypes "github.com/sourcenetwork/defradb/acp/types"
	"github.com/sourcenetwork/defradb/client"
	"github.com/sourcenetwork/defradb/client/request"
	"github.com/sourcenetwork/defradb/internal/core"
	coreblock "github.com/sourcenetwork/defradb/internal/core/block"
	"github.com/sourcenetwork/defradb/internal/db/base"
	"github.com/sourcenetwork/defradb/internal/db/fetcher"
	"github.com/sourcenetwork/defradb/internal/keys"
	"github.com/sourcenetwork/defradb/internal/planner/mapper"
)

// VerifH_C03_RequestAtCommit — conf dag: the history (default: one commit with two concurrent children)
func VerifH_C03_RequestAtCommit() {
	e := vNewEnv(vFieldCounter, true)
	e.docID = "bae-00000000-0000-0000-0000-0000000000d0"
	n := vConfInt("n")
	e.vDAG(n, -1)
	e.build()
	fetcher.VerifMemStore = func() corekv.TxnStore { return vNewStore() }
	defer func() { fetcher.VerifMemStore = nil }()
	// the node has merged every commit: the current state and the heads as the merge leaves them
	total := int64(0)
	isParent := make([]bool, n)
	for i := range e.commits {
		total += e.commits[i].inc
		for _, p := range e.commits[i].parents {
			isParent[p] = true
		}
	}
	ctx := context.Background()
	put := func(k keys.DataStoreKey, v []byte) { e.txn.data.put(k.Bytes(), v) }
	docKey := keys.DataStoreKey{CollectionShortID: 1, DocID: e.docID}
	e.txn.data.put(docKey.ToPrimaryDataStoreKey().Bytes(), []byte{base.ObjectMarker})
	put(docKey.WithValueFlag().WithFieldID(keys.DATASTORE_DOC_VERSION_FIELD_ID), []byte("sv1"))
	tb, err := cbor.Marshal(total)
	vBound(err == nil, "cbor")
	put(docKey.WithValueFlag().WithFieldID("1"), tb)
	hs := coreblock.NewHeadSet(e.txn.head, e.headKey())
	for i := range e.commits {
		if !isParent[i] {
			vBound(hs.Write(ctx, e.commits[i].compCid, e.commits[i].height) == nil, "head")
		}
	}
	store := &qStore{cols: []*qCol{{def: e.def}}}
	p := New(e.ctx, immutable.None[acpIdentity.Identity](), immutable.None[dac.DocumentACP](), store)
	target := vChoose("target", n)
	sel := &request.Select{Field: request.Field{Name: "T"}, ChildSelect: request.ChildSelect{Fields: []request.Selection{qField(vFieldName)}},
		CIDFilter:    request.CIDFilter{CID: immutable.Some(e.commits[target].compCid.String())},
		DocIDsFilter: request.DocIDsFilter{DocIDs: immutable.Some([]string{e.docID})}}
	plan, err := p.MakeSelectionPlan(sel)
	vAssert(err == nil, "request-no-error")
	if err != nil {
		return
	}
	if err := plan.Init(); err != nil {
		vAssert(false, "request-no-error")
		return
	}
	res, err := p.executeRequest(e.ctx, plan)
	_ = plan.Close()
	vCover("ran")
	vAssert(err == nil, "request-no-error")
	if err != nil {
		return
	}
	anc := make([]bool, n)
	e.ancestors(target, anc)
	want := int64(0)
	for i := range e.commits {
		if anc[i] {
			want += e.commits[i].inc
		}
	}
	vAssert(len(res) == 1, "document-is-returned-at-the-commit")
	if len(res) == 1 {
		got, ok := res[0][vFieldName].(int64)
		vAssert(ok && got == want, "value-at-the-commit-is-the-sum-of-the-increments-up-to-it")
	}
	vObserve("rows", len(res))
	_ = strconv.Itoa
	_ = core.COMPOSITE_NAMESPACE
}

// the ACP system for the commit-history job: the document is registered; whether the requester may read it is the input
type hACP struct {
	dac.DocumentACP
	readable bool
}

func (a *hACP) IsDocRegistered(ctx context.Context, policyID, resourceName, docID string) (bool, error) {
	return true, nil
}
func (a *hACP) CheckDocAccess(ctx context.Context, perm acpTypes.DocumentResourcePermission, actorID, policyID, resourceName, docID string) (bool, error) {
	return a.readable, nil
}

// VerifH_C10_CommitHistory — C10 on the commit-history path: commits(docID: d) { cid height } through the real mapper
// (ToCommitSelect), planner (CommitSelect, dagScanNode) and head fetcher over the block table of the merge-walk
// environment, with document access control on: a requester who may not read the document gets no commits, one who may
// gets every commit of the history.
func VerifH_C10_CommitHistory() {
	e := vNewEnv(vFieldCounter, true)
	e.docID = "bae-00000000-0000-0000-0000-0000000000d0"
	n := vConfInt("n")
	e.vDAG(n, -1)
	e.build()
	isParent := make([]bool, n)
	for i := range e.commits {
		for _, p := range e.commits[i].parents {
			isParent[p] = true
		}
	}
	ctx := context.Background()
	hs := coreblock.NewHeadSet(e.txn.head, e.headKey())
	for i := range e.commits {
		if !isParent[i] {
			vBound(hs.Write(ctx, e.commits[i].compCid, e.commits[i].height) == nil, "head")
		}
	}
	def := e.def
	def.Version.Policy = immutable.Some(client.PolicyDescription{ID: "pol1", ResourceName: "T"})
	store := &qStore{cols: []*qCol{{def: def}}}
	acp := &hACP{readable: vBool("requester-may-read-the-document")}
	var d dac.DocumentACP = acp
	p := New(e.ctx, immutable.None[acpIdentity.Identity](), immutable.Some(d), store)
	sel := &request.CommitSelect{Field: request.Field{Name: request.CommitsName},
		ChildSelect: request.ChildSelect{Fields: []request.Selection{qField(request.CidFieldName), qField(request.HeightFieldName)}},
		DocID:       immutable.Some(e.docID), FieldName: immutable.Some(request.CompositeFieldName)}
	m, err := mapper.ToCommitSelect(e.ctx, store, sel)
	vAssert(err == nil, "request-no-error")
	if err != nil {
		return
	}
	plan, err := p.CommitSelect(m)
	vAssert(err == nil, "request-no-error")
	if err != nil {
		return
	}
	vBound(p.optimizePlan(plan) == nil, "optimize")
	if err := plan.Init(); err != nil {
		vAssert(false, "request-no-error")
		return
	}
	res, err := p.executeRequest(e.ctx, plan)
	_ = plan.Close()
	vCover("ran")
	vAssert(err == nil, "request-no-error")
	if err != nil {
		return
	}
	if acp.readable {
		vAssert(len(res) == n, "reader-sees-the-whole-history")
	} else {
		vAssert(len(res) == 0, "history-of-an-unreadable-document-is-invisible")
	}
	vObserve("commits", len(res))
}
