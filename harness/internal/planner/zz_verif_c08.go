//go:build verif

package planner

// C08 — filter / order / limit semantics on the real planner and connor code.

import (
	"time"

	"github.com/sourcenetwork/defradb/internal/connor"
	"github.com/sourcenetwork/defradb/internal/core"
	"github.com/sourcenetwork/defradb/internal/db/base"
	"github.com/sourcenetwork/defradb/internal/keys"
	"github.com/sourcenetwork/defradb/internal/planner/mapper"
)

const (
	vkNil = iota
	vkInt
	vkFloat
	vkString
	vkBool
	vkTime
)

// a document field value: one symbolic scalar of a concrete kind
type vField struct {
	kind      int
	i         int64
	f         float64
	s         string
	b         bool
	sec, nsec int64
}

func vStringN(name string, maxLen int) string {
	n := vChoose(name+".len", maxLen+1)
	b := make([]byte, n)
	for i := 0; i < n; i++ {
		b[i] = vU8(name + ".b")
	}
	return string(b)
}

// vMkField: value of the given kind, or null when nullable
func vMkField(name string, kind int, nullable bool) vField {
	v := vField{kind: kind}
	if nullable && vChoose(name+".null", 2) == 1 {
		v.kind = vkNil
		return v
	}
	switch kind {
	case vkInt:
		v.i = vI64(name)
	case vkFloat:
		v.f = vF64(name)
		vAssume(v.f == v.f) // NaN cannot enter through JSON / GraphQL
	case vkString:
		v.s = vStringN(name, 2)
	case vkBool:
		v.b = vBool(name)
	case vkTime:
		v.sec = vI64(name + ".sec")
		v.nsec = vI64(name + ".nsec")
		vAssume(vAnd(vAnd(v.nsec >= 0, v.nsec < 1000000000), vAnd(v.sec >= -(1<<55), v.sec <= 1<<55)))
	}
	return v
}

func (v vField) box() any {
	switch v.kind {
	case vkInt:
		return v.i
	case vkFloat:
		return v.f
	case vkString:
		return v.s
	case vkBool:
		return v.b
	case vkTime:
		return time.Unix(v.sec, v.nsec)
	}
	return nil
}

// reference order: null first, then the natural order of the kind (fields of one column share a kind)
func vFLess(a, b vField) bool {
	if a.kind == vkNil || b.kind == vkNil {
		return a.kind == vkNil && b.kind != vkNil
	}
	switch a.kind {
	case vkInt:
		return a.i < b.i
	case vkFloat:
		return a.f < b.f
	case vkString:
		return a.s < b.s
	case vkBool:
		return vAnd(!a.b, b.b)
	}
	return vOr(a.sec < b.sec, vAnd(a.sec == b.sec, a.nsec < b.nsec))
}

func vFEq(a, b vField) bool {
	if a.kind == vkNil || b.kind == vkNil {
		return a.kind == b.kind
	}
	switch a.kind {
	case vkInt:
		return a.i == b.i
	case vkFloat:
		return a.f == b.f
	case vkString:
		return a.s == b.s
	case vkBool:
		return a.b == b.b
	}
	return vAnd(a.sec == b.sec, a.nsec == b.nsec)
}

type vRow struct {
	f   []vField
	tag int64
}

func vMkRow(name string, kinds []int, nullable bool) vRow {
	r := vRow{}
	for k, kind := range kinds {
		r.f = append(r.f, vMkField(name+string(rune('0'+k)), kind, nullable))
	}
	return r
}

func (r vRow) doc() core.Doc {
	d := core.Doc{Fields: make(core.DocFields, len(r.f)+1)}
	for k := range r.f {
		d.Fields[k] = r.f[k].box()
	}
	d.Fields[len(r.f)] = r.tag
	return d
}

// reference multi-key order: first key decides, ties are broken by each following key
func vRowLess(a, b vRow, desc []bool) bool {
	res := false
	tie := true
	for k := range a.f {
		lk := vFLess(a.f[k], b.f[k])
		if desc[k] {
			lk = vFLess(b.f[k], a.f[k])
		}
		res = vOr(res, vAnd(tie, lk))
		tie = vAnd(tie, vFEq(a.f[k], b.f[k]))
	}
	return res
}

func vOrdering(kinds []int) ([]mapper.OrderCondition, []bool) {
	var ord []mapper.OrderCondition
	var desc []bool
	for k := range kinds {
		d := vChoose("desc", 2) == 1
		desc = append(desc, d)
		dir := mapper.ASC
		if d {
			dir = mapper.DESC
		}
		ord = append(ord, mapper.OrderCondition{FieldIndexes: []int{k}, Direction: dir})
	}
	return ord, desc
}

func vKinds() []int {
	n := vConfInt("keys")
	ks := []int{vConfInt("k0")}
	if n > 1 {
		ks = append(ks, vConfInt("k1"))
	}
	if n > 2 {
		ks = append(ks, vConfInt("k2"))
	}
	return ks
}

// VerifH_C08_Comparator — O1: docValueLess equals the lexicographic reference.
// conf: keys, k0,k1,k2 (kinds), class: 0 = no tie on an earlier key (or single key), 1 = tie on the
// first key (the class of known finding C08-order-later-keys-ignored), 2 = unrestricted
func VerifH_C08_Comparator() {
	kinds := vKinds()
	ord, desc := vOrdering(kinds)
	n := &valuesNode{ordering: ord}
	a, b := vMkRow("a", kinds, true), vMkRow("b", kinds, true)
	if len(kinds) > 1 {
		tie0 := vFEq(a.f[0], b.f[0])
		switch vConfInt("class") {
		case 0:
			vAssume(!tie0)
		case 1:
			vAssume(tie0)
		}
	}
	got := n.docValueLess(a.doc(), b.doc())
	ref := vRowLess(a, b, desc)
	vCover("compared")
	vAssert(got == ref, "lexicographic")
	vObserve("got", got)
}

// VerifH_C08_StrictWeakOrder — O1: what sort.Stable needs from Less
func VerifH_C08_StrictWeakOrder() {
	kinds := vKinds()
	ord, _ := vOrdering(kinds)
	n := &valuesNode{ordering: ord}
	a, b, c := vMkRow("a", kinds, true), vMkRow("b", kinds, true), vMkRow("c", kinds, true)
	da, db, dc := a.doc(), b.doc(), c.doc()
	ab, ba := n.docValueLess(da, db), n.docValueLess(db, da)
	bc, cb := n.docValueLess(db, dc), n.docValueLess(dc, db)
	ac, ca := n.docValueLess(da, dc), n.docValueLess(dc, da)
	vCover("compared")
	vAssert(!n.docValueLess(da, da), "irreflexive")
	vAssert(!(ab && ba), "asymmetric")
	vAssert(vImplies(vAnd(ab, bc), ac), "transitive")
	vAssert(vImplies(vAnd(vAnd(!ab, !ba), vAnd(!bc, !cb)), vAnd(!ac, !ca)), "incomparability-transitive")
}

// VerifH_C08_Compare — base.Compare is the three-way version of the reference order
func VerifH_C08_Compare() {
	kind := vConfInt("k0")
	a, b := vMkField("a", kind, true), vMkField("b", kind, true)
	c := base.Compare(a.box(), b.box())
	vCover("compared")
	vAssert((c < 0) == vFLess(a, b), "less")
	vAssert((c == 0) == vFEq(a, b), "equal")
	vAssert((c > 0) == vFLess(b, a), "greater")
	vObserve("c", c)
}

// ---- a source plan node yielding given rows ----

type vSource struct {
	docMapper
	rows   []core.Doc
	pos    int
	nexts  int
	closed bool
}

func (s *vSource) Init() error                       { s.pos = -1; return nil }
func (s *vSource) Start() error                      { return nil }
func (s *vSource) Prefixes(prefixes []keys.Walkable) {}
func (s *vSource) Kind() string                      { return "vSource" }
func (s *vSource) Close() error                      { s.closed = true; return nil }
func (s *vSource) Source() planNode                  { return nil }
func (s *vSource) Value() core.Doc                   { return s.rows[s.pos] }
func (s *vSource) Next() (bool, error) {
	s.nexts++
	if s.pos+1 >= len(s.rows) {
		return false, nil
	}
	s.pos++
	return true, nil
}

// VerifH_C08_Sort — O2: orderNode over N rows yields a permutation sorted w.r.t. the reference, stable.
// conf: keys,k0.., n (rows), class as in Comparator (applied to every pair of rows)
func VerifH_C08_Sort() {
	kinds := vKinds()
	nrows := vConfInt("n")
	ord, desc := vOrdering(kinds)
	rows := make([]vRow, nrows)
	src := &vSource{}
	for i := range rows {
		rows[i] = vMkRow("r"+string(rune('0'+i)), kinds, true)
		rows[i].tag = int64(i)
		src.rows = append(src.rows, rows[i].doc())
	}
	if len(kinds) > 1 && vConfInt("class") == 0 {
		for i := range rows {
			for j := i + 1; j < len(rows); j++ {
				vAssume(!vFEq(rows[i].f[0], rows[j].f[0]))
			}
		}
	}
	on := &orderNode{p: &Planner{}, plan: src, ordering: ord, needSort: true}
	vAssert(on.Init() == nil, "init")
	var out []int
	for {
		next, err := on.Next()
		vAssert(err == nil, "next-no-error")
		if !next {
			break
		}
		d := on.Value()
		out = append(out, int(d.Fields[len(kinds)].(int64)))
		if len(out) > nrows {
			break
		}
	}
	vCover("sorted")
	vAssert(len(out) == nrows, "same-count")
	seen := make([]bool, nrows)
	for _, t := range out {
		if t >= 0 && t < nrows {
			vAssert(!seen[t], "permutation")
			seen[t] = true
		}
	}
	for p := 0; p+1 < len(out) && p+1 < nrows; p++ {
		x, y := rows[out[p]], rows[out[p+1]]
		// sorted: the successor is never strictly smaller
		vAssert(!vRowLess(y, x, desc), "sorted")
		// stable: rows that compare equal keep their input order
		if out[p] > out[p+1] {
			vAssert(vRowLess(x, y, desc), "stable")
		}
	}
}

// VerifH_C08_Limit — O3: limitNode yields exactly rows offset .. offset+limit-1 (limit 0: all after offset)
func VerifH_C08_Limit() {
	nrows := vConfInt("n")
	src := &vSource{}
	for i := 0; i < nrows; i++ {
		src.rows = append(src.rows, core.Doc{Fields: core.DocFields{int64(i)}})
	}
	limit, offset := vU64("limit"), vU64("offset")
	// what the parser can produce from non-negative GraphQL Int arguments
	vAssume(vAnd(limit < 1<<31, offset < 1<<31))
	ln := &limitNode{plan: src, limit: limit, offset: offset}
	vAssert(ln.Init() == nil, "init")
	count := uint64(0)
	for {
		next, err := ln.Next()
		vAssert(err == nil, "next-no-error")
		if !next {
			break
		}
		got := uint64(ln.Value().Fields[0].(int64))
		vAssert(got == offset+count, "row-identity")
		count++
		if count > uint64(nrows) {
			break
		}
	}
	vCover("drained")
	// expected number of rows
	avail := uint64(0)
	if offset < uint64(nrows) {
		avail = uint64(nrows) - offset
	}
	want := avail
	if limit != 0 && limit < avail {
		want = limit
	}
	vAssert(count == want, "row-count")
	// exhausted iterators stay exhausted
	next, err := ln.Next()
	vAssert(vAnd(!next, err == nil), "stays-exhausted")
	vObserve("count", count)
}

// ---- O4: filter operators ----

func vOpName(i int) string {
	return []string{connor.EqualOp, connor.NotEqualOp, connor.GreaterOp, connor.GreaterOrEqualOp, connor.LesserOp,
		connor.LesserOrEqualOp, connor.InOp, connor.NotInOp}[i]
}

// numeric three-way reference through the conversion the operators document:
// mixed int/float comparisons are carried out in float64
func vNumLess(a, b vField) bool {
	switch {
	case a.kind == vkInt && b.kind == vkInt:
		return a.i < b.i
	case a.kind == vkInt:
		return float64(a.i) < b.f
	case b.kind == vkInt:
		return a.f < float64(b.i)
	}
	return a.f < b.f
}

// equality: same kind plain; mixed kinds: exact (the float must denote exactly the integer)
func vNumEq(a, b vField) bool {
	switch {
	case a.kind == vkInt && b.kind == vkInt:
		return a.i == b.i
	case a.kind == vkFloat && b.kind == vkFloat:
		return a.f == b.f
	case a.kind == vkInt:
		return vAnd(float64(a.i) == b.f, int64(float64(a.i)) == a.i)
	}
	return vAnd(float64(b.i) == a.f, int64(float64(b.i)) == b.i)
}

func vRefEq(c, d vField) bool {
	if c.kind == vkNil || d.kind == vkNil {
		return c.kind == d.kind
	}
	cn, dn := c.kind == vkInt || c.kind == vkFloat, d.kind == vkInt || d.kind == vkFloat
	if cn != dn {
		return false
	}
	if cn {
		return vNumEq(c, d)
	}
	if c.kind != d.kind {
		return false
	}
	return vFEq(c, d)
}

func vFilter(op string, cond any) *mapper.Filter {
	return &mapper.Filter{Conditions: map[connor.FilterKey]any{
		&mapper.PropertyIndex{Index: 0}: map[connor.FilterKey]any{&mapper.Operator{Operation: op}: cond},
	}}
}

// VerifH_C08_FilterOp — one operator on one field equals its reference.
// conf: op (index), ck (condition kind), dk (data kind), dnull (data may be null)
func VerifH_C08_FilterOp() {
	op := vOpName(vConfInt("op"))
	ck, dk := vConfInt("ck"), vConfInt("dk")
	d := vMkField("d", dk, vConfInt("dnull") != 0)
	c := vMkField("c", ck, false)
	c2 := vMkField("c2", ck, false)
	doc := core.Doc{Fields: core.DocFields{d.box()}}
	var cond any = c.box()
	if op == connor.InOp || op == connor.NotInOp {
		cond = []any{c.box(), c2.box()}
	}
	got, err := mapper.RunFilter(doc, vFilter(op, cond))
	vCover("filtered")
	vAssert(err == nil, "no-error")
	if err != nil {
		return
	}
	num := (ck == vkInt || ck == vkFloat) && (d.kind == vkInt || d.kind == vkFloat)
	var ref bool
	switch op {
	case connor.EqualOp:
		ref = vRefEq(c, d)
	case connor.NotEqualOp:
		ref = !vRefEq(c, d)
	case connor.InOp:
		ref = vOr(vRefEq(c, d), vRefEq(c2, d))
	case connor.NotInOp:
		ref = !vOr(vRefEq(c, d), vRefEq(c2, d))
	case connor.GreaterOp: // data > condition; a null or non-comparable datum never matches
		ref = num && vNumLess(c, d)
	case connor.GreaterOrEqualOp:
		ref = num && !vNumLess(d, c)
	case connor.LesserOp:
		ref = num && vNumLess(d, c)
	case connor.LesserOrEqualOp:
		ref = num && !vNumLess(c, d)
	}
	vAssert(got == ref, "operator-semantics")
	vObserve("got", got)
}

// VerifH_C08_FilterLaws — algebraic laws between operators on same-kind numeric operands,
// and the compound operators.
func VerifH_C08_FilterLaws() {
	ck, dk := vConfInt("ck"), vConfInt("dk")
	d := vMkField("d", dk, false)
	c := vMkField("c", ck, false)
	doc := core.Doc{Fields: core.DocFields{d.box()}}
	run := func(f *mapper.Filter) bool {
		m, err := mapper.RunFilter(doc, f)
		vAssert(err == nil, "no-error")
		return m
	}
	eq, ne := run(vFilter(connor.EqualOp, c.box())), run(vFilter(connor.NotEqualOp, c.box()))
	gt, ge := run(vFilter(connor.GreaterOp, c.box())), run(vFilter(connor.GreaterOrEqualOp, c.box()))
	lt, le := run(vFilter(connor.LesserOp, c.box())), run(vFilter(connor.LesserOrEqualOp, c.box()))
	vCover("filtered")
	vAssert(ne == !eq, "ne-is-not-eq")
	if ck == dk {
		vAssert(ge == vOr(gt, eq), "ge-is-gt-or-eq")
		vAssert(le == vOr(lt, eq), "le-is-lt-or-eq")
	}
	vAssert(lt == !ge, "lt-is-not-ge")
	vAssert(gt == !le, "gt-is-not-le")
	// compound operators over the same field
	sub := func(op string) any {
		return map[connor.FilterKey]any{&mapper.PropertyIndex{Index: 0}: map[connor.FilterKey]any{&mapper.Operator{Operation: op}: c.box()}}
	}
	top := func(op string, arg any) *mapper.Filter {
		return &mapper.Filter{Conditions: map[connor.FilterKey]any{&mapper.Operator{Operation: op}: arg}}
	}
	vAssert(run(top(connor.AndOp, []any{sub(connor.GreaterOrEqualOp), sub(connor.LesserOrEqualOp)})) == vAnd(ge, le), "and")
	vAssert(run(top(connor.OrOp, []any{sub(connor.GreaterOp), sub(connor.LesserOp)})) == vOr(gt, lt), "or")
	vAssert(run(top(connor.NotOp, sub(connor.GreaterOp))) == !gt, "not")
	// De Morgan
	nAnd := run(top(connor.NotOp, map[connor.FilterKey]any{&mapper.Operator{Operation: connor.AndOp}: []any{sub(connor.GreaterOrEqualOp), sub(connor.LesserOrEqualOp)}}))
	vAssert(nAnd == vOr(!ge, !le), "de-morgan")
}

// VerifH_C08_Reach — vacuity twin
func VerifH_C08_Reach() {
	kinds := []int{vkInt}
	ord, _ := vOrdering(kinds)
	n := &valuesNode{ordering: ord}
	a, b := vMkRow("a", kinds, false), vMkRow("b", kinds, false)
	got := n.docValueLess(a.doc(), b.doc())
	vCover("end")
	vAssert(!got, "reach-twin")
}
