//go:build verif

package planner

// Query kernel — the real request pipeline below the GraphQL parser: mapper.ToSelect → Planner.Select →
// optimizePlan (join direction, index choice) → Init / Start / Next over the real scan nodes and the real fetcher
// stack, on documents (and index entries) that live in the key-value model. The request is a hand-built
// request.Select (what the parser produces); the data are symbolic; the expected result is computed directly
// from the data.
//
// Schema (definitions as db.AddSchema produces them for this SDL, captured natively once):
//   type User    { name: String  age: Int  devices: [Device]  address: Address }
//   type Device  { model: String year: Int @index  owner: User }
//   type Address { city: String @index  user: User @primary }

import (
	"context"
	"strconv"

	"github.com/fxamacker/cbor/v2"
	"github.com/sourcenetwork/corekv"
	"github.com/sourcenetwork/immutable"

	acpIdentity "github.com/sourcenetwork/defradb/acp/identity"
	"github.com/sourcenetwork/defradb/acp/dac"
	"github.com/sourcenetwork/defradb/client"
	"github.com/sourcenetwork/defradb/client/request"
	"github.com/sourcenetwork/defradb/internal/datastore"
	"github.com/sourcenetwork/defradb/internal/db/fetcher"
	"github.com/sourcenetwork/defradb/internal/db/id"
	"github.com/sourcenetwork/defradb/internal/keys"
)

const (
	qUserRoot    = "bafkreia7ljiy5oief4dp5xsk7t7zlgfjzqh3537hw7rtttjzchybfxtn4u"
	qDeviceRoot  = "bafkreiarwrdkuu2pmmec3fwxjsr4yluk72otbd3sjgdwf3nadxymnnf4tq"
	qAddressRoot = "bafkreibsynum7j65tz42anfl4ko3bkc72lnh6ub5544jppgkbuxokzaane"
)

type qTxn struct {
	datastore.Txn
	data, system *vKV
}

func (t *qTxn) Datastore() corekv.ReaderWriter   { return t.data }
func (t *qTxn) Systemstore() corekv.ReaderWriter { return t.system }

type qCol struct {
	client.Collection
	def client.CollectionDefinition
}

func (c *qCol) Definition() client.CollectionDefinition { return c.def }
func (c *qCol) Version() client.CollectionVersion       { return c.def.Version }
func (c *qCol) Schema() client.SchemaDescription        { return c.def.Schema }
func (c *qCol) Name() string                            { return c.def.Version.Name }
func (c *qCol) VersionID() string                       { return c.def.Version.VersionID }
func (c *qCol) SchemaRoot() string                      { return c.def.Schema.Root }
func (c *qCol) GetIndexes(ctx context.Context) ([]client.IndexDescription, error) {
	return c.def.Version.Indexes, nil
}

type qStore struct {
	client.TxnStore
	cols []*qCol
}

func (s *qStore) GetCollectionByName(ctx context.Context, name string) (client.Collection, error) {
	for _, c := range s.cols {
		if c.def.Version.Name == name {
			return c, nil
		}
	}
	return nil, corekv.ErrNotFound
}

func (s *qStore) GetCollections(ctx context.Context, o client.CollectionFetchOptions) ([]client.Collection, error) {
	var out []client.Collection
	for _, c := range s.cols {
		if o.CollectionID.HasValue() && o.CollectionID.Value() != c.def.Version.CollectionID {
			continue
		}
		if o.Name.HasValue() && o.Name.Value() != c.def.Version.Name {
			continue
		}
		out = append(out, c)
	}
	return out, nil
}

func (s *qStore) GetSchemas(ctx context.Context, o client.SchemaFetchOptions) ([]client.SchemaDescription, error) {
	return nil, nil
}

func (s *qStore) LensRegistry() client.LensRegistry { return nil }

// redirect target of lens.NewFetcher inside the solver run: no migrations are registered
func qNoLens(f fetcher.Fetcher, r client.LensRegistry) fetcher.Fetcher { return f }

func qRel(name string) immutable.Option[string] { return immutable.Some(name) }
func qKind(k client.FieldKind) immutable.Option[client.FieldKind] {
	return immutable.Some(k)
}

func qDefs(idx int) []*qCol {
	str := client.FieldKind_NILLABLE_STRING
	num := client.FieldKind_NILLABLE_INT
	lww := client.LWW_REGISTER
	user := client.CollectionDefinition{
		Version: client.CollectionVersion{Name: "User", VersionID: qUserRoot, CollectionID: qUserRoot, IsActive: true, IsMaterialized: true,
			Fields: []client.CollectionFieldDescription{
				{Name: "_docID"},
				{Name: "address", Kind: qKind(client.NewSchemaKind(qAddressRoot, false)), RelationName: qRel("address_user")},
				{Name: "address_id", Kind: qKind(client.FieldKind_DocID), RelationName: qRel("address_user")},
				{Name: "age"},
				{Name: "devices", Kind: qKind(client.NewSchemaKind(qDeviceRoot, true)), RelationName: qRel("device_user")},
				{Name: "name"},
				{Name: "floats"}, {Name: "ints"},
			}},
		Schema: client.SchemaDescription{Root: qUserRoot, VersionID: qUserRoot, Name: "User",
			Fields: []client.SchemaFieldDescription{{Name: "_docID", Kind: client.FieldKind_DocID}, {Name: "age", Kind: num, Typ: lww}, {Name: "name", Kind: str, Typ: lww},
				// (two inline arrays, as `floats: [Float!] ints: [Int!]` declares them; used by the aggregate jobs of C08)
				{Name: "floats", Kind: client.FieldKind_FLOAT64_ARRAY, Typ: lww}, {Name: "ints", Kind: client.FieldKind_INT_ARRAY, Typ: lww}}},
	}
	device := client.CollectionDefinition{
		Version: client.CollectionVersion{Name: "Device", VersionID: qDeviceRoot, CollectionID: qDeviceRoot, IsActive: true, IsMaterialized: true,
			Fields: []client.CollectionFieldDescription{
				{Name: "_docID"}, {Name: "model"},
				{Name: "owner", RelationName: qRel("device_user")},
				{Name: "owner_id", RelationName: qRel("device_user")},
				{Name: "year"},
			}},
		Schema: client.SchemaDescription{Root: qDeviceRoot, VersionID: qDeviceRoot, Name: "Device",
			Fields: []client.SchemaFieldDescription{{Name: "_docID", Kind: client.FieldKind_DocID}, {Name: "model", Kind: str, Typ: lww}, {Name: "year", Kind: num, Typ: lww},
				{Name: "owner", Kind: client.NewSchemaKind(qUserRoot, false), Typ: lww}, {Name: "owner_id", Kind: client.FieldKind_DocID, Typ: lww}}},
	}
	address := client.CollectionDefinition{
		Version: client.CollectionVersion{Name: "Address", VersionID: qAddressRoot, CollectionID: qAddressRoot, IsActive: true, IsMaterialized: true,
			Fields: []client.CollectionFieldDescription{
				{Name: "_docID"}, {Name: "city"},
				{Name: "user", RelationName: qRel("address_user")},
				{Name: "user_id", RelationName: qRel("address_user")},
			}},
		Schema: client.SchemaDescription{Root: qAddressRoot, VersionID: qAddressRoot, Name: "Address",
			Fields: []client.SchemaFieldDescription{{Name: "_docID", Kind: client.FieldKind_DocID}, {Name: "city", Kind: str, Typ: lww},
				{Name: "user", Kind: client.NewSchemaKind(qUserRoot, false), Typ: lww}, {Name: "user_id", Kind: client.FieldKind_DocID, Typ: lww}}},
	}
	if idx&1 != 0 {
		device.Version.Indexes = []client.IndexDescription{{Name: "Device_year_ASC", ID: 1, Fields: []client.IndexedFieldDescription{{Name: "year"}}}}
		address.Version.Indexes = []client.IndexDescription{{Name: "Address_city_ASC", ID: 1, Fields: []client.IndexedFieldDescription{{Name: "city"}}}}
	}
	if idx&2 != 0 {
		user.Version.Indexes = []client.IndexDescription{{Name: "User_age_ASC", ID: 1, Fields: []client.IndexedFieldDescription{{Name: "age"}}}}
	}
	return []*qCol{{def: user}, {def: device}, {def: address}}
}

// short ids: collections 1..3 in the order of qDefs; fields numbered in the order of the schema fields
type qEnv struct {
	ctx   context.Context
	txn   *qTxn
	store *qStore
	p     *Planner
}

func qNewEnv(idx int) *qEnv {
	e := &qEnv{txn: &qTxn{data: &vKV{}, system: &vKV{}}}
	ctx := datastore.CtxSetTxn(context.Background(), e.txn)
	ctx = id.InitCollectionShortIDCache(ctx)
	ctx = id.InitFieldShortIDCache(ctx)
	e.ctx = ctx
	e.store = &qStore{cols: qDefs(idx)}
	for ci, c := range e.store.cols {
		vBound(id.SetShortCollectionID(ctx, c.def.Version.CollectionID) == nil, "short collection id")
		for _, f := range c.def.Schema.Fields {
			if f.Name == "_docID" {
				continue
			}
			vBound(id.SetShortFieldID(ctx, uint32(ci+1), f.Name) == nil, "short field id")
		}
	}
	e.p = New(ctx, immutable.None[acpIdentity.Identity](), immutable.None[dac.DocumentACP](), e.store)
	return e
}

func (e *qEnv) shortCol(name string) uint32 {
	for i, c := range e.store.cols {
		if c.def.Version.Name == name {
			return uint32(i + 1)
		}
	}
	panic("collection " + name)
}

func qCbor(v any) []byte {
	b, err := cbor.Marshal(v)
	if err != nil {
		panic("cbor")
	}
	return b
}

// putDoc stores a document the way collection.save leaves it: the schema-version marker and one entry per field
// under the value prefix (and the index entries of the indexed fields)
func (e *qEnv) putDoc(col string, docID string, fields map[string]any) {
	c := e.shortCol(col)
	def := e.store.cols[c-1].def
	k := keys.DataStoreKey{CollectionShortID: c, DocID: docID, FieldID: keys.DATASTORE_DOC_VERSION_FIELD_ID}.WithValueFlag()
	e.txn.data.put(k.Bytes(), []byte(def.Schema.VersionID))
	for _, f := range def.Schema.Fields {
		v, ok := fields[f.Name]
		if !ok {
			continue
		}
		sid, err := id.GetShortFieldID(e.ctx, c, f.Name)
		vBound(err == nil, "field id")
		fk := keys.DataStoreKey{CollectionShortID: c, DocID: docID, FieldID: strconv.Itoa(int(sid))}.WithValueFlag()
		e.txn.data.put(fk.Bytes(), qCbor(v))
	}
	for _, idx := range def.Version.Indexes {
		var nv client.NormalValue
		switch x := fields[idx.Fields[0].Name].(type) {
		case int64:
			nv = client.NewNormalInt(x)
		case string:
			nv = client.NewNormalString(x)
		default:
			nv, _ = client.NewNormalNil(client.FieldKind_NILLABLE_INT)
		}
		ik := keys.NewIndexDataStoreKey(c, idx.ID, []keys.IndexedField{{Value: nv}, {Value: client.NewNormalString(docID)}})
		e.txn.data.put(ik.Bytes(), []byte{})
	}
}

// putDeletedDoc stores a document the way applyDelete leaves it: its entries under the deleted prefix (the entries of the
// secondary indexes are removed on delete)
func (e *qEnv) putDeletedDoc(col string, docID string, fields map[string]any) {
	c := e.shortCol(col)
	def := e.store.cols[c-1].def
	k := keys.DataStoreKey{CollectionShortID: c, DocID: docID, FieldID: keys.DATASTORE_DOC_VERSION_FIELD_ID}.WithDeletedFlag()
	e.txn.data.put(k.Bytes(), []byte(def.Schema.VersionID))
	for _, f := range def.Schema.Fields {
		v, ok := fields[f.Name]
		if !ok {
			continue
		}
		sid, err := id.GetShortFieldID(e.ctx, c, f.Name)
		vBound(err == nil, "field id")
		fk := keys.DataStoreKey{CollectionShortID: c, DocID: docID, FieldID: strconv.Itoa(int(sid))}.WithDeletedFlag()
		e.txn.data.put(fk.Bytes(), qCbor(v))
	}
}

func qField(name string) *request.Field { return &request.Field{Name: name} }

func (e *qEnv) run(sel *request.Select) ([]map[string]any, error) {
	plan, err := e.p.MakeSelectionPlan(sel)
	if err != nil {
		return nil, err
	}
	if err := plan.Init(); err != nil {
		return nil, err
	}
	res, err := e.p.executeRequest(e.ctx, plan)
	if cerr := plan.Close(); err == nil {
		err = cerr
	}
	return res, err
}

var qUserIDs = []string{"bae-00000000-0000-0000-0000-0000000000a0", "bae-00000000-0000-0000-0000-0000000000a1"}
var qDeviceIDs = []string{"bae-00000000-0000-0000-0000-0000000000d0", "bae-00000000-0000-0000-0000-0000000000d1", "bae-00000000-0000-0000-0000-0000000000d2"}
var qModels = []string{"good", "bad"}

// qSmall: a value in 0..3 (one length class of the index key encoder: the encodings themselves are C17's subject)
func qSmall(name string) int64 { return int64(vU8(name) & 3) }

type qDevice struct {
	year  int64
	model int
	owner int // index into qUserIDs, -1 none
}

// VerifH_C09_OneToMany — conf: q (query shape), idx (0/1: secondary index on Device.year), devices (2..3)
//
//	q=0  User { name devices { model } }                                  children of each parent
//	q=1  Device { model owner { name } }                                  parent of each child
//	q=2  User(filter: {devices: {year: {_gt: c}}}) { name }               parents with a matching child
//	q=3  User(filter: {devices: {year: {_gt: c}, model: {_eq: "good"}}}) { name }
//	q=4  User(filter: {devices: {year: {_gt: c}}}) { name devices { model } }
//	q=5  Device(filter: {owner: {age: {_gt: c}}}) { model }               children with a matching parent
//	q=6  User(filter: {devices: {year: {_gt: c}}}) { name devices(order: {year: ASC}) { model year } }
//	q=7  User(filter: {devices: {year: {_gt: c}}}) { name _count(devices: {}) }
//	q=8  User(filter: {devices: {year: {_gt: c}}}, order: {age: ASC}) { name age }
//	q=9  User { name devices(order: {year: ASC}) { model year } }         ordered children, no filter
//	q=10 Device(filter: {year: {_gt: c}, owner: {age: {_gt: c}}}) { model }   own condition and a condition on the parent
//	q=11 Device(order: {owner: {age: ASC}}) { model owner { age } }       children ordered by a field of their parent
//	q=12 User(filter: {devices: {year: {_gt: c}}}) { name _count(devices: {filter: {model: {_eq: "good"}}}) }
//	q=13 User(filter: {devices: {year: {_gt: c}}}) { name devices(limit: 1) { model } }     limited children
//
// idx: bit 0 = secondary index on Device.year, bit 1 = secondary index on User.age
func VerifH_C09_OneToMany() {
	q := vConfInt("q")
	e := qNewEnv(vConfInt("idx"))
	nd := vConfInt("devices")
	ages := [2]int64{qSmall("age"), qSmall("age")}
	for u, uid := range qUserIDs {
		e.putDoc("User", uid, map[string]any{"name": "U" + strconv.Itoa(u), "age": ages[u]})
	}
	devs := make([]qDevice, nd)
	for d := 0; d < nd; d++ {
		devs[d] = qDevice{year: qSmall("year"), model: vChoose("model", 2), owner: vChoose("owner", 3) - 1}
		f := map[string]any{"model": qModels[devs[d].model], "year": devs[d].year}
		if devs[d].owner >= 0 {
			f["owner_id"] = qUserIDs[devs[d].owner]
		}
		e.putDoc("Device", qDeviceIDs[d], f)
	}
	// conf class (known finding C09-order-through-relation-drops-parentless): 0 = every child has a parent,
	// 1 = some child has none, 2 = unrestricted
	orphan := false
	for d := range devs {
		orphan = orphan || devs[d].owner < 0
	}
	switch vConfInt("class") {
	case 0:
		vAssume(!orphan)
	case 1:
		vAssume(orphan)
	}
	c := qSmall("c") - 1
	yearGt := map[string]any{"year": map[string]any{"_gt": c}}
	var sel *request.Select
	switch q {
	case 9:
		sel = &request.Select{Field: request.Field{Name: "User"}, ChildSelect: request.ChildSelect{Fields: []request.Selection{
			qField("name"), &request.Select{Field: request.Field{Name: "devices"}, ChildSelect: request.ChildSelect{Fields: []request.Selection{qField("model"), qField("year")}},
				Orderable: request.Orderable{OrderBy: immutable.Some(request.OrderBy{Conditions: []request.OrderCondition{{Fields: []string{"year"}, Direction: request.ASC}}})}}}}}
	case 0:
		sel = &request.Select{Field: request.Field{Name: "User"}, ChildSelect: request.ChildSelect{Fields: []request.Selection{
			qField("name"), &request.Select{Field: request.Field{Name: "devices"}, ChildSelect: request.ChildSelect{Fields: []request.Selection{qField("model")}}}}}}
	case 1:
		sel = &request.Select{Field: request.Field{Name: "Device"}, ChildSelect: request.ChildSelect{Fields: []request.Selection{
			qField("model"), &request.Select{Field: request.Field{Name: "owner"}, ChildSelect: request.ChildSelect{Fields: []request.Selection{qField("name")}}}}}}
	case 2, 3, 4, 6, 7, 8, 12, 13:
		cond := yearGt
		if q == 3 {
			cond = map[string]any{"year": map[string]any{"_gt": c}, "model": map[string]any{"_eq": "good"}}
		}
		fields := []request.Selection{qField("name")}
		if q == 4 {
			fields = append(fields, &request.Select{Field: request.Field{Name: "devices"}, ChildSelect: request.ChildSelect{Fields: []request.Selection{qField("model")}}})
		}
		if q == 6 {
			fields = append(fields, &request.Select{Field: request.Field{Name: "devices"}, ChildSelect: request.ChildSelect{Fields: []request.Selection{qField("model"), qField("year")}},
				Orderable: request.Orderable{OrderBy: immutable.Some(request.OrderBy{Conditions: []request.OrderCondition{{Fields: []string{"year"}, Direction: request.ASC}}})}})
		}
		if q == 13 {
			fields = append(fields, &request.Select{Field: request.Field{Name: "devices"}, ChildSelect: request.ChildSelect{Fields: []request.Selection{qField("model")}},
				Limitable: request.Limitable{Limit: immutable.Some(uint64(1))}})
		}
		if q == 7 {
			fields = append(fields, &request.Aggregate{Field: request.Field{Name: request.CountFieldName}, Targets: []*request.AggregateTarget{{HostName: "devices"}}})
		}
		if q == 12 {
			fields = append(fields, &request.Aggregate{Field: request.Field{Name: request.CountFieldName}, Targets: []*request.AggregateTarget{{HostName: "devices",
				Filterable: request.Filterable{Filter: immutable.Some(request.Filter{Conditions: map[string]any{"model": map[string]any{"_eq": "good"}}})}}}})
		}
		sel = &request.Select{Field: request.Field{Name: "User"}, ChildSelect: request.ChildSelect{Fields: fields},
			Filterable: request.Filterable{Filter: immutable.Some(request.Filter{Conditions: map[string]any{"devices": cond}})}}
		if q == 8 {
			sel.Fields = append(sel.Fields, qField("age"))
			sel.OrderBy = immutable.Some(request.OrderBy{Conditions: []request.OrderCondition{{Fields: []string{"age"}, Direction: request.ASC}}})
		}
	case 10:
		sel = &request.Select{Field: request.Field{Name: "Device"}, ChildSelect: request.ChildSelect{Fields: []request.Selection{qField("model")}},
			Filterable: request.Filterable{Filter: immutable.Some(request.Filter{Conditions: map[string]any{"year": map[string]any{"_gt": c}, "owner": map[string]any{"age": map[string]any{"_gt": c}}}})}}
	case 11:
		sel = &request.Select{Field: request.Field{Name: "Device"}, ChildSelect: request.ChildSelect{Fields: []request.Selection{
			qField("model"), &request.Select{Field: request.Field{Name: "owner"}, ChildSelect: request.ChildSelect{Fields: []request.Selection{qField("age")}}}}},
			Orderable: request.Orderable{OrderBy: immutable.Some(request.OrderBy{Conditions: []request.OrderCondition{{Fields: []string{"owner", "age"}, Direction: request.ASC}}})}}
	default:
		sel = &request.Select{Field: request.Field{Name: "Device"}, ChildSelect: request.ChildSelect{Fields: []request.Selection{qField("model")}},
			Filterable: request.Filterable{Filter: immutable.Some(request.Filter{Conditions: map[string]any{"owner": map[string]any{"age": map[string]any{"_gt": c}}}})}}
	}
	res, err := e.run(sel)
	vCover("ran")
	vAssert(err == nil, "query-no-error")
	if err != nil {
		return
	}
	match := func(d int) bool {
		ok := devs[d].year > c
		if q == 3 {
			ok = ok && devs[d].model == 0
		}
		return ok
	}
	switch q {
	case 0, 2, 3, 4, 6, 7, 8, 9, 12, 13:
		// expected parents
		var want [2]bool
		for u := range qUserIDs {
			want[u] = q == 0 || q == 9
			for d := range devs {
				if q != 0 && q != 9 && devs[d].owner == u && match(d) {
					want[u] = true
				}
			}
		}
		var seen [2]int
		for _, row := range res {
			name, _ := row["name"].(string)
			u := -1
			for i := range qUserIDs {
				if name == "U"+strconv.Itoa(i) {
					u = i
				}
			}
			vAssert(u >= 0, "row-is-a-stored-parent")
			if u < 0 {
				continue
			}
			seen[u]++
			if q == 7 || q == 12 {
				wantKids := 0
				for d := range devs {
					if devs[d].owner == u && (q == 7 || devs[d].model == 0) {
						wantKids++
					}
				}
				n, _ := row[request.CountFieldName].(int)
				vAssert(n == wantKids, "count-through-the-relation-is-the-number-of-related-documents")
			}
			if q == 13 {
				kids, _ := row["devices"].([]map[string]any)
				have := 0
				for d := range devs {
					if devs[d].owner == u {
						have++
					}
				}
				if have > 1 {
					have = 1
				}
				vAssert(len(kids) == have, "limited-children-are-as-many-as-the-limit-allows")
				for _, k := range kids {
					m, _ := k["model"].(string)
					found := false
					for d := range devs {
						if devs[d].owner == u && qModels[devs[d].model] == m {
							found = true
						}
					}
					vAssert(found, "related-documents-are-exactly-those-pointing-to-the-parent")
				}
			}
			if q == 6 || q == 9 {
				kids, _ := row["devices"].([]map[string]any)
				for i := 1; i < len(kids); i++ {
					a, _ := kids[i-1]["year"].(int64)
					b, _ := kids[i]["year"].(int64)
					vAssert(a <= b, "ordered-children-are-in-order")
				}
			}
			if q == 0 || q == 4 || q == 6 || q == 9 {
				kids, _ := row["devices"].([]map[string]any)
				wantKids := 0
				for d := range devs {
					if devs[d].owner == u {
						wantKids++
					}
				}
				vAssert(len(kids) == wantKids, "related-documents-are-exactly-those-pointing-to-the-parent")
				for _, k := range kids {
					m, _ := k["model"].(string)
					found := false
					for d := range devs {
						if devs[d].owner == u && qModels[devs[d].model] == m {
							found = true
						}
					}
					vAssert(found, "related-documents-are-exactly-those-pointing-to-the-parent")
				}
			}
		}
		if q == 8 && len(res) == 2 {
			a, _ := res[0]["age"].(int64)
			b, _ := res[1]["age"].(int64)
			vAssert(a <= b, "ordered-parents-are-in-order")
		}
		for u := range qUserIDs {
			if want[u] {
				vAssert(seen[u] == 1, "parent-with-a-matching-child-appears-once")
			} else {
				vAssert(seen[u] == 0, "parent-without-a-matching-child-does-not-appear")
			}
		}
	case 1, 5, 10, 11:
		wantRows := 0
		for d := range devs {
			if q == 1 || q == 11 || (devs[d].owner >= 0 && ages[devs[d].owner] > c && (q == 5 || devs[d].year > c)) {
				wantRows++
			}
		}
		if q == 11 {
			// in ascending order of the parent's age, children without a parent first
			prev, havePrev := int64(0), false
			for _, row := range res {
				o, _ := row["owner"].(map[string]any)
				if o == nil {
					vAssert(!havePrev, "children-ordered-by-their-parents-field")
					continue
				}
				a, _ := o["age"].(int64)
				vAssert(!havePrev || prev <= a, "children-ordered-by-their-parents-field")
				prev, havePrev = a, true
			}
		}
		vAssert(len(res) == wantRows, "children-with-a-matching-parent-appear-once-each")
		if q == 1 {
			// every row's owner is the user its owner_id names (rows are matched by model + owner name multiset)
			var wantPairs, gotPairs [2][3]int // [model][owner+1]
			for d := range devs {
				wantPairs[devs[d].model][devs[d].owner+1]++
			}
			for _, row := range res {
				m, _ := row["model"].(string)
				mi := 0
				if m == qModels[1] {
					mi = 1
				}
				oi := 0
				if o, ok := row["owner"].(map[string]any); ok && o != nil {
					n, _ := o["name"].(string)
					for i := range qUserIDs {
						if n == "U"+strconv.Itoa(i) {
							oi = i + 1
						}
					}
				}
				gotPairs[mi][oi]++
			}
			vAssert(gotPairs == wantPairs, "child-shows-the-parent-its-relation-field-points-to")
		}
	}
	vObserve("rows", len(res))
}

var qAddressIDs = []string{"bae-00000000-0000-0000-0000-0000000000c0", "bae-00000000-0000-0000-0000-0000000000c1"}
var qCities = []string{"X", "Y"}

// VerifH_C09_OneToOne — conf: q (query shape), idx (bit 0: index on Address.city, bit 1: index on User.age)
//
//	q=0  User { name address { city } }                              the secondary side shows the document pointing to it
//	q=1  Address { city user { name } }                              the primary side shows the document it points to
//	q=2  User(filter: {address: {city: {_eq: "X"}}}) { name }        parents by a condition on the related document
//	q=3  Address(filter: {user: {age: {_gt: c}}}) { city }           primary side filtered through the relation
//	q=4  User(filter: {address: {city: {_eq: "X"}}}) { name address { city } }
//
// A one-to-one link is held by at most one document (what local writes guarantee): the two addresses point to different users.
func VerifH_C09_OneToOne() {
	q := vConfInt("q")
	e := qNewEnv(vConfInt("idx"))
	ages := [2]int64{qSmall("age"), qSmall("age")}
	for u, uid := range qUserIDs {
		e.putDoc("User", uid, map[string]any{"name": "U" + strconv.Itoa(u), "age": ages[u]})
	}
	var city, owner [2]int
	for a := range qAddressIDs {
		city[a], owner[a] = vChoose("city", 2), vChoose("owner", 3)-1
		f := map[string]any{"city": qCities[city[a]]}
		if owner[a] >= 0 {
			f["user_id"] = qUserIDs[owner[a]]
		}
		e.putDoc("Address", qAddressIDs[a], f)
	}
	vAssume(owner[0] < 0 || owner[0] != owner[1])
	c := qSmall("c") - 1
	addrSel := &request.Select{Field: request.Field{Name: "address"}, ChildSelect: request.ChildSelect{Fields: []request.Selection{qField("city")}}}
	cityX := request.Filterable{Filter: immutable.Some(request.Filter{Conditions: map[string]any{"address": map[string]any{"city": map[string]any{"_eq": "X"}}}})}
	var sel *request.Select
	switch q {
	case 0:
		sel = &request.Select{Field: request.Field{Name: "User"}, ChildSelect: request.ChildSelect{Fields: []request.Selection{qField("name"), addrSel}}}
	case 1:
		sel = &request.Select{Field: request.Field{Name: "Address"}, ChildSelect: request.ChildSelect{Fields: []request.Selection{
			qField("city"), &request.Select{Field: request.Field{Name: "user"}, ChildSelect: request.ChildSelect{Fields: []request.Selection{qField("name")}}}}}}
	case 2:
		sel = &request.Select{Field: request.Field{Name: "User"}, ChildSelect: request.ChildSelect{Fields: []request.Selection{qField("name")}}, Filterable: cityX}
	case 3:
		sel = &request.Select{Field: request.Field{Name: "Address"}, ChildSelect: request.ChildSelect{Fields: []request.Selection{qField("city")}},
			Filterable: request.Filterable{Filter: immutable.Some(request.Filter{Conditions: map[string]any{"user": map[string]any{"age": map[string]any{"_gt": c}}}})}}
	default:
		sel = &request.Select{Field: request.Field{Name: "User"}, ChildSelect: request.ChildSelect{Fields: []request.Selection{qField("name"), addrSel}}, Filterable: cityX}
	}
	res, err := e.run(sel)
	vCover("ran")
	vAssert(err == nil, "query-no-error")
	if err != nil {
		return
	}
	userOf := func(name string) int {
		for i := range qUserIDs {
			if name == "U"+strconv.Itoa(i) {
				return i
			}
		}
		return -1
	}
	addrOf := func(u int) int {
		for a := range owner {
			if owner[a] == u {
				return a
			}
		}
		return -1
	}
	switch q {
	case 0, 2, 4:
		var seen [2]int
		for _, row := range res {
			name, _ := row["name"].(string)
			u := userOf(name)
			vAssert(u >= 0, "row-is-a-stored-parent")
			if u < 0 {
				continue
			}
			seen[u]++
			if q == 0 || q == 4 {
				a := addrOf(u)
				got, _ := row["address"].(map[string]any)
				if a < 0 {
					vAssert(got == nil, "related-document-is-the-one-pointing-to-the-parent")
				} else {
					gc, _ := got["city"].(string)
					vAssert(got != nil && gc == qCities[city[a]], "related-document-is-the-one-pointing-to-the-parent")
				}
			}
		}
		for u := range qUserIDs {
			want := q == 0
			if a := addrOf(u); q != 0 && a >= 0 && city[a] == 0 {
				want = true
			}
			if want {
				vAssert(seen[u] == 1, "parent-with-a-matching-related-document-appears-once")
			} else {
				vAssert(seen[u] == 0, "parent-without-a-matching-related-document-does-not-appear")
			}
		}
	case 1, 3:
		var wantPairs, gotPairs [2][3]int // [city][owner+1]
		for a := range owner {
			if q == 1 || (owner[a] >= 0 && ages[owner[a]] > c) {
				o := owner[a] + 1
				if q == 3 {
					o = 0
				}
				wantPairs[city[a]][o]++
			}
		}
		for _, row := range res {
			cn, _ := row["city"].(string)
			ci := 0
			if cn == qCities[1] {
				ci = 1
			}
			oi := 0
			if o, ok := row["user"].(map[string]any); ok && o != nil {
				n, _ := o["name"].(string)
				oi = userOf(n) + 1
			}
			gotPairs[ci][oi]++
		}
		vAssert(gotPairs == wantPairs, "primary-side-shows-exactly-the-document-it-points-to")
	}
	vObserve("rows", len(res))
}
