//go:build verif

package planner

// C08.O5 — the sum aggregate equals the arithmetic over the listed values: the real sumNode.Next with reduceDocs /
// reduceItems (enumerable Skip / Take for a limit on the aggregated array) over a child relation of documents or an
// inline integer array.
//   kind 0: integer property of child documents   -> the integer sum
//   kind 1: float property of child documents     -> the float sum in listing order
//   kind 2: inline integer array with limit/offset -> the integer sum of the slice [offset, offset+limit)
// Integer values are fixed here (see aggInts); sums of integers beyond 2^53 are accumulated in a float64 by sumNode
// and are not exact (the same class as known finding C18-int-above-2p53), which this check does not explore.

import (
	"github.com/sourcenetwork/defradb/internal/core"
	"github.com/sourcenetwork/defradb/internal/planner/mapper"
)

const aggN = 3

// the integer values are fixed (1, -3, 9: every subset has its own sum); which of them are summed — hidden child
// documents, offset and limit on an inline array — is the input. (Symbolic integers make the solver decide
// int64 -> float64 -> int64 round trips of sums, which it does not within the time limit even for 16-bit values.)
func aggInts() [aggN]int64 {
	if vConfInt("class") == 1 {
		// one value just above 2^53 (symbolic low byte), the others zero
		return [aggN]int64{int64(1)<<53 + int64(vU8("low")), 0, 0}
	}
	return [aggN]int64{1, -3, 9}
}

// VerifH_C08_Sum — conf: kind, class
func VerifH_C08_Sum() {
	kind := vConfInt("kind")
	row := core.Doc{Fields: make(core.DocFields, 2)}
	target := mapper.AggregateTarget{Targetable: mapper.Targetable{Field: mapper.Field{Index: 0, Name: "children"}}}
	var wantInt int64
	var wantFloat float64
	switch kind {
	case 0:
		vs := aggInts()
		var docs []core.Doc
		for i, v := range vs {
			hidden := vChoose("hidden", 2) == 1
			_ = i
			docs = append(docs, core.Doc{Hidden: hidden, Fields: core.DocFields{v}})
			if !hidden {
				wantInt += v
			}
		}
		row.Fields[0] = docs
		target.ChildTarget = mapper.OptionalChildTarget{Index: 0, Name: "points", HasValue: true}
	case 1:
		var docs []core.Doc
		for i := 0; i < aggN; i++ {
			f := vF64("f")
			// finite values whose sums stay finite (NaN and infinities cannot enter through JSON / GraphQL, and
			// Inf + -Inf = NaN would fail the comparison below for no reason)
			vAssume(f == f && f >= -1e300 && f <= 1e300)
			docs = append(docs, core.Doc{Fields: core.DocFields{f}})
			wantFloat += f
		}
		row.Fields[0] = docs
		target.ChildTarget = mapper.OptionalChildTarget{Index: 0, Name: "points", HasValue: true}
	default:
		vs := aggInts()
		off, lim := uint64(vChoose("offset", aggN+1)), uint64(vChoose("limit", aggN+1))
		target.Limit = &mapper.Limit{Offset: off, Limit: lim}
		for i, v := range vs {
			if uint64(i) >= off && uint64(i) < off+lim {
				wantInt += v
			}
		}
		row.Fields[0] = vs[:]
	}
	src := &vSource{rows: []core.Doc{row}}
	_ = src.Init()
	n := &sumNode{plan: src, isFloat: kind == 1, virtualFieldIndex: 1, aggregateMapping: []mapper.AggregateTarget{target}}
	ok, err := n.Next()
	vAssert(err == nil && ok, "sum-no-error")
	if err != nil || !ok {
		return
	}
	vCover("summed")
	got := n.currentValue.Fields[1]
	if kind == 1 {
		f, isF := got.(float64)
		vAssert(isF && (f == wantFloat), "float-sum-is-the-sum-in-listing-order")
		return
	}
	i, isI := got.(int64)
	vAssert(isI, "integer-sum-is-an-integer")
	vAssert(i == wantInt, "integer-sum-is-the-arithmetic-sum")
}
