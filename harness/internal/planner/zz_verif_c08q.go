//go:build verif

package planner

// C08 at the request level (the query kernel of zz_verif_query.go): min / max over several targets of different numeric
// kinds, and filter + order + limit of a whole request against direct evaluation.

import (
	"github.com/sourcenetwork/immutable"

	"github.com/sourcenetwork/defradb/client/request"
)

// VerifH_C08_MinMax — conf: agg (0 _max, 1 _min), first (0: the float array is listed first, 1: the integer array)
//
//	User { _max(floats: {}, ints: {}) }   over one document with two floats and two integers
//
// The aggregate equals the greatest (least) of all listed values, whichever target it comes from and in whichever
// order the targets are written.
func VerifH_C08_MinMax() {
	isMin := vConfInt("agg") != 0
	e := qNewEnv(0)
	// the floats are picked by the solver from four constants with a fractional part, the integers are any int8
	// (fully symbolic float64 values make every comparison a 128-bit floating-point query of ~20 s)
	cand := []float64{1.25, 3.75, -2.5, 100.5}
	fs := []float64{cand[vChoose("f", len(cand))], cand[vChoose("f", len(cand))]}
	is := []int64{int64(vI8("i")), int64(vI8("i"))}
	e.putDoc("User", qUserIDs[0], map[string]any{"name": "U0", "age": int64(1), "floats": fs, "ints": is})
	name := request.MaxFieldName
	if isMin {
		name = request.MinFieldName
	}
	targets := []*request.AggregateTarget{{HostName: "floats"}, {HostName: "ints"}}
	if vConfInt("first") != 0 {
		targets[0], targets[1] = targets[1], targets[0]
	}
	sel := &request.Select{Field: request.Field{Name: "User"}, ChildSelect: request.ChildSelect{Fields: []request.Selection{
		&request.Aggregate{Field: request.Field{Name: name}, Targets: targets}}}}
	res, err := e.run(sel)
	vCover("ran")
	vAssert(err == nil && len(res) == 1, "query-no-error")
	if err != nil || len(res) != 1 {
		return
	}
	// every listed value as a float64 (the integers are small: exact)
	want := fs[0]
	for _, v := range []float64{fs[1], float64(is[0]), float64(is[1])} {
		if (!isMin && v > want) || (isMin && v < want) {
			want = v
		}
	}
	var got float64
	switch x := res[0][name].(type) {
	case float64:
		got = x
	case int64:
		got = float64(x)
	default:
		vFail("aggregate-is-a-number")
		return
	}
	vAssert(got == want, "aggregate-equals-the-extreme-of-all-listed-values")
	vObserve("is-float", func() bool { _, ok := res[0][name].(float64); return ok }())
}

var _ = immutable.None[int]
