//go:build verif

package planner

// C08 at the request level (the query kernel of zz_verif_query.go): min / max over several targets of different numeric
// kinds, and filter + order + limit of a whole request against direct evaluation.

import (
	"github.com/sourcenetwork/immutable"

	"github.com/sourcenetwork/defradb/client/request"
)

// VerifH_C08_MinMax — conf: agg (0 _max, 1 _min), first (0: the float array is listed first, 1: the integer array)
//
//	User { _max(floats: {}, ints: {}) }   over one document with two floats and two integers
//
// The aggregate equals the greatest (least) of all listed values, whichever target it comes from and in whichever
// order the targets are written.
func VerifH_C08_MinMax() {
	isMin := vConfInt("agg") != 0
	e := qNewEnv(0)
	// the floats are picked by the solver from four constants with a fractional part, the integers are any int8
	// (fully symbolic float64 values make every comparison a 128-bit floating-point query of ~20 s)
	cand := []float64{1.25, 3.75, -2.5, 100.5}
	fs := []float64{cand[vChoose("f", len(cand))], cand[vChoose("f", len(cand))]}
	is := []int64{int64(vI8("i")), int64(vI8("i"))}
	e.putDoc("User", qUserIDs[0], map[string]any{"name": "U0", "age": int64(1), "floats": fs, "ints": is})
	name := request.MaxFieldName
	if isMin {
		name = request.MinFieldName
	}
	targets := []*request.AggregateTarget{{HostName: "floats"}, {HostName: "ints"}}
	if vConfInt("first") != 0 {
		targets[0], targets[1] = targets[1], targets[0]
	}
	sel := &request.Select{Field: request.Field{Name: "User"}, ChildSelect: request.ChildSelect{Fields: []request.Selection{
		&request.Aggregate{Field: request.Field{Name: name}, Targets: targets}}}}
	res, err := e.run(sel)
	vCover("ran")
	vAssert(err == nil && len(res) == 1, "query-no-error")
	if err != nil || len(res) != 1 {
		return
	}
	// every listed value as a float64 (the integers are small: exact)
	want := fs[0]
	for _, v := range []float64{fs[1], float64(is[0]), float64(is[1])} {
		if (!isMin && v > want) || (isMin && v < want) {
			want = v
		}
	}
	var got float64
	switch x := res[0][name].(type) {
	case float64:
		got = x
	case int64:
		got = float64(x)
	default:
		vFail("aggregate-is-a-number")
		return
	}
	vAssert(got == want, "aggregate-equals-the-extreme-of-all-listed-values")
	vObserve("is-float", func() bool { _, ok := res[0][name].(float64); return ok }())
}

var _ = immutable.None[int]

// VerifH_C07_Request — a whole single-collection request against direct evaluation, with and without a secondary index
// on the filtered / ordered field (C07: the index never changes the answer; C08: filter, order, limit semantics).
//
//	User(filter: {age: {<op>: c}}, order: {age: <dir>}, limit: l, offset: o) { name age }
//
// conf: op (0 none, 1 _eq, 2 _ne, 3 _gt, 4 _ge, 5 _lt, 6 _le, 7 _in [c, c2], 8 _nin [c, c2]), dir (0 none, 1 ASC, 2 DESC),
// idx (index bits as in the C09 harness: 2 = secondary index on User.age), n (documents, ages 0..3 or null)
func VerifH_C07_Request() {
	op, dir, n := vConfInt("op"), vConfInt("dir"), vConfInt("n")
	// conf deleted: the request asks for deleted documents too (showDeleted), and each document may be a deleted one
	showDeleted := vConfInt("deleted") != 0
	e := qNewEnv(vConfInt("idx"))
	ids := []string{qUserIDs[0], qUserIDs[1], "bae-00000000-0000-0000-0000-0000000000a2"}
	type person struct {
		null bool
		age  int64
	}
	ps := make([]person, n)
	for i := range ps {
		ps[i] = person{null: vChoose("null", 2) == 1, age: qSmall("age")}
		f := map[string]any{"name": "U" + string(rune('0'+i))}
		if ps[i].null {
			f["age"] = nil
		} else {
			f["age"] = ps[i].age
		}
		if showDeleted && vChoose("is-deleted", 2) == 1 {
			e.putDeletedDoc("User", ids[i], f)
		} else {
			e.putDoc("User", ids[i], f)
		}
	}
	c, c2 := qSmall("c"), qSmall("c")
	match := func(p person) bool {
		switch op {
		case 1:
			return !p.null && p.age == c
		case 2:
			return p.null || p.age != c
		case 3:
			return !p.null && p.age > c
		case 4:
			return !p.null && p.age >= c
		case 5:
			return !p.null && p.age < c
		case 6:
			return !p.null && p.age <= c
		case 7:
			return !p.null && (p.age == c || p.age == c2)
		case 8:
			return p.null || (p.age != c && p.age != c2)
		}
		return true
	}
	sel := &request.Select{Field: request.Field{Name: "User"}, ChildSelect: request.ChildSelect{Fields: []request.Selection{qField("name"), qField("age")}}}
	names := []string{"", "_eq", "_ne", "_gt", "_ge", "_lt", "_le", "_in", "_nin"}
	if op != 0 {
		var operand any = c
		if op >= 7 {
			operand = []any{c, c2}
		}
		sel.Filter = immutable.Some(request.Filter{Conditions: map[string]any{"age": map[string]any{names[op]: operand}}})
	}
	sel.ShowDeleted = showDeleted
	limit, offset := 0, 0
	if dir != 0 {
		d := request.ASC
		if dir == 2 {
			d = request.DESC
		}
		sel.OrderBy = immutable.Some(request.OrderBy{Conditions: []request.OrderCondition{{Fields: []string{"age"}, Direction: d}}})
		limit, offset = vChoose("limit", 3), vChoose("offset", 3)
		if limit > 0 {
			sel.Limit = immutable.Some(uint64(limit))
		}
		if offset > 0 {
			sel.Offset = immutable.Some(uint64(offset))
		}
	}
	res, err := e.run(sel)
	vCover("ran")
	vAssert(err == nil, "query-no-error")
	if err != nil {
		return
	}
	// the matching documents
	var want []person
	for _, p := range ps {
		if match(p) {
			want = append(want, p)
		}
	}
	less := func(a, b person) bool { // ascending, null first
		if a.null != b.null {
			return a.null
		}
		return !a.null && a.age < b.age
	}
	if dir != 0 {
		for i := 1; i < len(want); i++ {
			for j := i; j > 0; j-- {
				swap := less(want[j], want[j-1])
				if dir == 2 {
					swap = less(want[j-1], want[j])
				}
				if !swap {
					break
				}
				want[j], want[j-1] = want[j-1], want[j]
			}
		}
		if offset > len(want) {
			offset = len(want)
		}
		want = want[offset:]
		if limit > 0 && limit < len(want) {
			want = want[:limit]
		}
	}
	vAssert(len(res) == len(want), "result-has-exactly-the-matching-documents-of-the-window")
	if len(res) != len(want) {
		return
	}
	got := make([]person, len(res))
	for i, row := range res {
		a, ok := row["age"].(int64)
		got[i] = person{null: !ok, age: a}
	}
	if dir != 0 {
		for i := range want {
			vAssert(got[i].null == want[i].null && (got[i].null || got[i].age == want[i].age), "sort-keys-are-in-the-requested-order")
		}
	} else {
		// the same multiset of ages (and nulls)
		var wc, gc [5]int
		for i := range want {
			if want[i].null {
				wc[4]++
			} else {
				wc[want[i].age]++
			}
			if got[i].null {
				gc[4]++
			} else {
				gc[got[i].age&3]++
			}
		}
		vAssert(wc == gc, "result-has-exactly-the-matching-documents-of-the-window")
	}
	vObserve("rows", len(res))
}

// VerifH_C08_Group — grouping: User(groupBy: [age]) { age _group { name } _count(_group: {}) } over three documents with
// age null or 0..1: one row per distinct age (null is a group of its own), each listing exactly the documents of that
// age, its count their number. conf: idx (index bits; 2 = index on User.age)
func VerifH_C08_Group() {
	e := qNewEnv(vConfInt("idx"))
	ids := []string{qUserIDs[0], qUserIDs[1], "bae-00000000-0000-0000-0000-0000000000a2"}
	var null [3]bool
	var age [3]int64
	for i := range ids {
		null[i], age[i] = vChoose("null", 2) == 1, int64(vChoose("age", 2)) // concrete: the group key is formatted into a string
		f := map[string]any{"name": "U" + string(rune('0'+i))}
		if null[i] {
			f["age"] = nil
		} else {
			f["age"] = age[i]
		}
		e.putDoc("User", ids[i], f)
	}
	sel := &request.Select{Field: request.Field{Name: "User"},
		Groupable: request.Groupable{GroupBy: immutable.Some(request.GroupBy{Fields: []string{"age"}})},
		ChildSelect: request.ChildSelect{Fields: []request.Selection{qField("age"),
			&request.Select{Field: request.Field{Name: request.GroupFieldName}, ChildSelect: request.ChildSelect{Fields: []request.Selection{qField("name")}}},
			&request.Aggregate{Field: request.Field{Name: request.CountFieldName}, Targets: []*request.AggregateTarget{{HostName: request.GroupFieldName}}}}}}
	res, err := e.run(sel)
	vCover("ran")
	vAssert(err == nil, "query-no-error")
	if err != nil {
		return
	}
	// group key: 0, 1, or 2 for null
	key := func(i int) int {
		if null[i] {
			return 2
		}
		return int(age[i])
	}
	var size [3]int
	for i := range ids {
		size[key(i)]++
	}
	groups := 0
	for k := range size {
		if size[k] > 0 {
			groups++
		}
	}
	vAssert(len(res) == groups, "one-row-per-distinct-group-key")
	var seen [3]int
	for _, row := range res {
		k := 2
		if a, ok := row["age"].(int64); ok {
			k = int(a & 1)
		}
		seen[k]++
		members, _ := row[request.GroupFieldName].([]map[string]any)
		vAssert(len(members) == size[k], "group-lists-exactly-its-documents")
		for _, m := range members {
			n, _ := m["name"].(string)
			found := false
			for i := range ids {
				if n == "U"+string(rune('0'+i)) && key(i) == k {
					found = true
				}
			}
			vAssert(found, "group-lists-exactly-its-documents")
		}
		cnt, _ := row[request.CountFieldName].(int)
		vAssert(cnt == size[k], "count-of-a-group-is-its-size")
	}
	for k := range size {
		vAssert(seen[k] <= 1, "one-row-per-distinct-group-key")
	}
	vObserve("rows", len(res))
}
