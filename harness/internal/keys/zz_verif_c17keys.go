//go:build verif

package keys

// C17.O4 / O5 — composite index keys: component-wise value order ⇔ byte order of the joined key, the key
// decodes back to the tuple, and [k, PrefixEnd(k)) is exactly the set of keys with prefix k.

import (
	"bytes"

	"github.com/sourcenetwork/defradb/client"
)

const (
	kkInt = iota
	kkFloat
	kkString
	kkBool
)

type kVal struct {
	kind int
	null bool
	i    int64
	f    float64
	s    string
	b    bool
}

func kMk(name string, kind int) kVal {
	v := kVal{kind: kind}
	if vChoose(name+".null", 2) == 1 {
		v.null = true
		return v
	}
	switch kind {
	case kkInt:
		v.i = int64(vI16(name)) // 16 bits: five length classes of the varint encoder; full width is decided per value kind
	case kkFloat:
		v.f = vF64(name)
		vAssume(v.f == v.f)
	case kkString:
		n := vChoose(name+".len", 3)
		b := make([]byte, n)
		for k := range b {
			b[k] = vU8(name + ".b")
		}
		v.s = string(b)
	default:
		v.b = vBool(name)
	}
	return v
}

func kKind(kind int) client.FieldKind {
	switch kind {
	case kkInt:
		return client.FieldKind_NILLABLE_INT
	case kkFloat:
		return client.FieldKind_NILLABLE_FLOAT64
	case kkString:
		return client.FieldKind_NILLABLE_STRING
	}
	return client.FieldKind_NILLABLE_BOOL
}

func (v kVal) normal() client.NormalValue {
	if v.null {
		n, err := client.NewNormalNil(kKind(v.kind))
		if err != nil {
			panic("nil")
		}
		return n
	}
	switch v.kind {
	case kkInt:
		return client.NewNormalInt(v.i)
	case kkFloat:
		return client.NewNormalFloat64(v.f)
	case kkString:
		return client.NewNormalString(v.s)
	}
	return client.NewNormalBool(v.b)
}

func kLess(a, b kVal) bool {
	if a.null || b.null {
		return a.null && !b.null
	}
	switch a.kind {
	case kkInt:
		return a.i < b.i
	case kkFloat:
		return a.f < b.f
	case kkString:
		return a.s < b.s
	}
	return vAnd(!a.b, b.b)
}

func kEq(a, b kVal) bool {
	if a.null || b.null {
		return a.null && b.null
	}
	switch a.kind {
	case kkInt:
		return a.i == b.i
	case kkFloat:
		return a.f == b.f
	case kkString:
		return a.s == b.s
	}
	return a.b == b.b
}

// VerifH_C17_CompositeKey — conf: k0, k1 (kinds of the two indexed fields)
func VerifH_C17_CompositeKey() {
	kinds := []int{vConfInt("k0"), vConfInt("k1")}
	desc := []bool{vChoose("desc", 2) == 1, vChoose("desc", 2) == 1}
	mk := func(name string) ([]kVal, IndexDataStoreKey) {
		var vals []kVal
		var fields []IndexedField
		for i, k := range kinds {
			v := kMk(name+string(rune('0'+i)), k)
			vals = append(vals, v)
			fields = append(fields, IndexedField{Value: v.normal(), Descending: desc[i]})
		}
		// non-unique index entries carry the document id as last component
		fields = append(fields, IndexedField{Value: client.NewNormalString("bae-doc")})
		return vals, NewIndexDataStoreKey(1, 1, fields)
	}
	va, ka := mk("a")
	vb, kb := mk("b")
	ea, eb := ka.Bytes(), kb.Bytes()
	c := bytes.Compare(ea, eb)
	// component-wise order, each component in its own direction
	less, eq := false, true
	for i := range kinds {
		lk := kLess(va[i], vb[i])
		if desc[i] {
			lk = kLess(vb[i], va[i])
		}
		less = vOr(less, vAnd(eq, lk))
		eq = vAnd(eq, kEq(va[i], vb[i]))
	}
	vCover("encoded")
	vAssert(vImplies(less, c < 0), "tuple-order-is-byte-order")
	vAssert(vImplies(eq, c == 0), "equal-tuples-equal-keys")
	vAssert(vImplies(c == 0, eq), "equal-keys-equal-tuples")
	// decode
	idx := &client.IndexDescription{ID: 1, Fields: []client.IndexedFieldDescription{{Name: "f0", Descending: desc[0]}, {Name: "f1", Descending: desc[1]}}}
	defs := []client.FieldDefinition{{Name: "f0", Kind: kKind(kinds[0])}, {Name: "f1", Kind: kKind(kinds[1])}}
	dec, err := DecodeIndexDataStoreKey(ea, idx, defs)
	vAssert(err == nil, "decode-no-error")
	if err != nil {
		return
	}
	vAssert(dec.CollectionShortID == 1 && dec.IndexID == 1 && len(dec.Fields) == 3, "decoded-shape")
	if len(dec.Fields) == 3 {
		for i := range kinds {
			got := dec.Fields[i].Value
			vAssert(got.IsNil() == va[i].null, "component-nullness")
			if va[i].null {
				continue
			}
			switch kinds[i] {
			case kkInt:
				x, ok := got.Int()
				vAssert(ok && x == va[i].i, "component-value")
			case kkFloat:
				x, ok := got.Float64()
				vAssert(ok && x == va[i].f, "component-value")
			case kkString:
				x, ok := got.String()
				vAssert(ok && x == va[i].s, "component-value")
			default:
				x, ok := got.Bool()
				vAssert(ok && x == va[i].b, "component-value")
			}
		}
		id, ok := dec.Fields[2].Value.String()
		vAssert(ok && id == "bae-doc", "doc-id-component")
	}
	vObserve("c", c)
}

// VerifH_C17_PrefixEnd — O5: for any byte string k (not all 0xFF) and any x: k is a prefix of x ⇒ k <= x <
// PrefixEnd(k); x > k and k not a prefix of x ⇒ x >= PrefixEnd(k)
func VerifH_C17_PrefixEnd() {
	mkBytes := func(name string, maxLen int) []byte {
		n := vChoose(name+".len", maxLen+1)
		b := make([]byte, n)
		for i := range b {
			b[i] = vU8(name + ".b")
		}
		return b
	}
	k := mkBytes("k", vConfInt("klen"))
	x := mkBytes("x", vConfInt("xlen"))
	allFF := true
	for _, c := range k {
		allFF = vAnd(allFF, c == 0xff)
	}
	vAssume(vAnd(len(k) > 0, !allFF)) // index keys start with '/'
	end := bytesPrefixEnd(k)
	vCover("computed")
	isPrefix := len(x) >= len(k) && bytes.Equal(x[:len(k)], k)
	cmpKX, cmpXEnd := bytes.Compare(k, x), bytes.Compare(x, end)
	if len(x) >= len(k) {
		vAssert(vImplies(isPrefix, vAnd(cmpKX <= 0, cmpXEnd < 0)), "keys-with-the-prefix-are-inside-the-range")
	}
	vAssert(vImplies(vAnd(cmpKX < 0, !isPrefix), cmpXEnd >= 0), "greater-keys-without-the-prefix-are-outside")
	vAssert(vImplies(cmpKX > 0, cmpXEnd < 0), "smaller-keys-are-below-the-end")
	vObserve("end", end)
}

// VerifH_C17_KeyRange — O5 for the keys themselves: [k.Bytes(), k.PrefixEnd()) of an index key built from a symbolic
// value (what createRangeBoundaries uses as the bounds of _gt / _le / _ge / _lt) and of a document key (what the
// document fetcher scans) contains every key that extends it and no key beyond. conf: kind (field kind), which
// (0 index key, 1 document key)
func VerifH_C17_KeyRange() {
	var kb, end []byte
	if vConfInt("which") == 0 {
		v := kMk("v", vConfInt("kind"))
		k := NewIndexDataStoreKey(1, 1, []IndexedField{{Value: v.normal(), Descending: vChoose("desc", 2) == 1}})
		kb, end = k.Bytes(), k.PrefixEnd()
	} else {
		k := DataStoreKey{CollectionShortID: uint32(vU16("col")), InstanceType: ValueKey}
		vAssume(k.CollectionShortID != 0)
		kb, end = k.Bytes(), k.PrefixEnd().Bytes()
	}
	vCover("ranged")
	vAssert(bytes.Compare(kb, end) < 0, "end-is-behind-the-key")
	// a key that extends k by one arbitrary byte is inside the range
	ext := append(append([]byte{}, kb...), vU8("suffix"))
	vAssert(bytes.Compare(ext, end) < 0, "extensions-of-the-key-are-inside-the-range")
	// a byte string of the same length that is greater than k is not below the end (the range holds nothing else)
	y := make([]byte, len(kb))
	for i := range y {
		y[i] = kb[i]
	}
	// (y differs from k in its last two bytes only: enough to cross a carry)
	if len(y) >= 2 {
		y[len(y)-1], y[len(y)-2] = vU8("y"), vU8("y")
		vAssert(vImplies(bytes.Compare(y, kb) > 0, bytes.Compare(y, end) >= 0), "nothing-else-is-inside-the-range")
	}
}

// VerifH_C17_KeysReach — vacuity twin
func VerifH_C17_KeysReach() {
	k := []byte{'/', vU8("b")}
	vAssume(k[1] != 0xff)
	end := bytesPrefixEnd(k)
	vCover("end")
	vAssert(bytes.Compare(end, k) <= 0, "reach-twin")
}
