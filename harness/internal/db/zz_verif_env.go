//go:build verif

package db

// db-specific part of the merge-walk environment (the generic part is /verif/harness/_common/dagenv.go.tmpl)

import (
	"container/list"

	"github.com/ipfs/go-cid"
	cidlink "github.com/ipld/go-ipld-prime/linking/cid"

	coreblock "github.com/sourcenetwork/defradb/internal/core/block"
)

func (e *vEnv) collection() *collection { return &collection{def: e.def} }

func (e *vEnv) newMergeProcessor() *mergeProcessor {
	if !vSymbolic() {
		mp, err := (&DB{}).newMergeProcessor(e.ctx, e.collection())
		if err != nil {
			panic("newMergeProcessor")
		}
		return mp
	}
	return &mergeProcessor{
		col:                       e.collection(),
		docIDs:                    make(map[string]struct{}),
		composites:                list.New(),
		queued:                    make(map[cid.Cid]struct{}),
		missingEncryptionBlocks:   make(map[cidlink.Link]struct{}),
		availableEncryptionBlocks: make(map[cidlink.Link]*coreblock.Encryption),
	}
}

// deliver commit x the way executeMerge does (without transaction handling and index sync)
func (e *vEnv) deliver(x int) (*mergeProcessor, error) {
	mt, err := getHeadsAsMergeTarget(e.ctx, e.headKey())
	if err != nil {
		return nil, err
	}
	mp := e.newMergeProcessor()
	if err := mp.loadComposites(e.ctx, e.commits[x].compCid, mt); err != nil {
		return mp, err
	}
	return mp, mp.mergeComposites(e.ctx)
}

