//go:build verif

package db

// db-specific part of the merge-walk environment (the generic part is /verif/harness/_common/dagenv.go.tmpl)

func (e *vEnv) collection() *collection { return &collection{def: e.def} }

// the merge processor is built by the real constructor (only its link systems read from the stores; inside the
// solver run LinkSystem.Load is redirected to the block table)
func (e *vEnv) newMergeProcessor() *mergeProcessor {
	mp, err := (&DB{}).newMergeProcessor(e.ctx, e.collection())
	if err != nil {
		panic("newMergeProcessor")
	}
	return mp
}

// deliver commit x the way executeMerge does (without transaction handling and index sync)
func (e *vEnv) deliver(x int) (*mergeProcessor, error) {
	mt, err := getHeadsAsMergeTarget(e.ctx, e.headKey())
	if err != nil {
		return nil, err
	}
	mp := e.newMergeProcessor()
	if err := mp.loadComposites(e.ctx, e.commits[x].compCid, mt); err != nil {
		return mp, err
	}
	return mp, mp.mergeComposites(e.ctx)
}

