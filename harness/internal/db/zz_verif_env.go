//go:build verif

package db

// Environment for the merge-walk harnesses: a datastore.Txn over key-value models, a block table, and a
// symbolic commit DAG.
//
// Two modes with identical observable behaviour:
//   - inside symgo (vSymbolic() == true): CIDs are synthetic (first digest byte = rank in the chosen hash
//     order), blocks live in a table, and LinkSystem.Load / GetFromNode / GenerateLink / loadBlockFromBlockStore
//     are redirected to the table (dag-cbor and sha256 are reflection / hashing code outside SMT reach);
//   - natively (replay, translator validation): blocks are really encoded with dag-cbor, filed under their real
//     CIDs in the real blockstore implementation over the key-value model, and the salt of the document id is
//     searched until the real CIDs of the composite commits are in the hash order the solver chose.

import (
	"bytes"
	"container/list"
	"context"
	"strconv"

	"github.com/fxamacker/cbor/v2"
	blocks "github.com/ipfs/go-block-format"
	"github.com/ipfs/go-cid"
	"github.com/ipld/go-ipld-prime/datamodel"
	"github.com/ipld/go-ipld-prime/linking"
	cidlink "github.com/ipld/go-ipld-prime/linking/cid"
	"github.com/sourcenetwork/corekv"

	"github.com/sourcenetwork/defradb/client"
	"github.com/sourcenetwork/defradb/internal/core"
	coreblock "github.com/sourcenetwork/defradb/internal/core/block"
	"github.com/sourcenetwork/defradb/internal/core/crdt"
	"github.com/sourcenetwork/defradb/internal/datastore"
	"github.com/sourcenetwork/defradb/internal/db/base"
	"github.com/sourcenetwork/defradb/internal/db/id"
	"github.com/sourcenetwork/defradb/internal/keys"
)

// ---- transaction model ----

type vTxn struct {
	datastore.Txn
	data, head, system, peer, root *vKV
	bs, enc                        datastore.Blockstore
	successFns                     []func()
	commits, discards              int
}

func (t *vTxn) Datastore() corekv.ReaderWriter   { return t.data }
func (t *vTxn) Headstore() corekv.ReaderWriter   { return t.head }
func (t *vTxn) Systemstore() corekv.ReaderWriter { return t.system }
func (t *vTxn) Peerstore() corekv.ReaderWriter   { return t.peer }
func (t *vTxn) Rootstore() corekv.ReaderWriter   { return t.root }
func (t *vTxn) Blockstore() datastore.Blockstore { return t.bs }
func (t *vTxn) Encstore() datastore.Blockstore   { return t.enc }
func (t *vTxn) ID() uint64                       { return 1 }
func (t *vTxn) OnSuccess(fn func())              { t.successFns = append(t.successFns, fn) }
func (t *vTxn) OnError(fn func())                {}
func (t *vTxn) OnDiscard(fn func())              {}
func (t *vTxn) Commit(ctx context.Context) error { t.commits++; return nil }
func (t *vTxn) Discard(ctx context.Context)      { t.discards++ }

// blockstore model used inside symgo: only membership is observable
type vBS struct {
	datastore.Blockstore
	env *vEnv
}

func (b *vBS) Has(ctx context.Context, c cid.Cid) (bool, error) {
	if b.env.faults.hit() {
		return false, vErrInjected
	}
	return b.env.find(c) >= 0, nil
}

// ---- commit DAG ----

const (
	vFieldLWW = iota
	vFieldCounter
)

type vCommit struct {
	parents []int
	height  uint64
	del     bool
	// field operation carried by the commit (absent on delete commits)
	payload []byte // LWW
	inc     int64  // counter
	nonce   int64
	// blocks
	comp, field       *coreblock.Block
	compCid, fieldCid cid.Cid
}

type vEnv struct {
	ctx       context.Context
	txn       *vTxn
	col       *collection
	docID     string
	fieldKind int
	commits   []*vCommit
	perm      []int // perm[i] = rank of composite commit i in the hash order
	faults    *vFaults
	hasField  bool // the receiver's collection definition knows the field
	// table (symgo mode)
	tabCids   []cid.Cid
	tabBlocks []*coreblock.Block
}

func (e *vEnv) find(c cid.Cid) int {
	for i := range e.tabCids {
		if e.tabCids[i] == c {
			return i
		}
	}
	return -1
}

// redirect targets (symgo mode only; natively the real functions run)
var vCurEnv *vEnv

type vNode struct {
	datamodel.Node
	blk *coreblock.Block
}

func vLoad(lsys *linking.LinkSystem, lc linking.LinkContext, lnk datamodel.Link, np datamodel.NodePrototype) (datamodel.Node, error) {
	if vCurEnv.faults.hit() {
		return nil, vErrInjected
	}
	c := lnk.(cidlink.Link).Cid
	i := vCurEnv.find(c)
	if i < 0 {
		return nil, vErrNotInTable
	}
	return vNode{blk: vCurEnv.tabBlocks[i]}, nil
}

var vErrNotInTable = corekv.ErrNotFound

func vGetFromNode(nd datamodel.Node) (*coreblock.Block, error) {
	return nd.(vNode).blk, nil
}

func vGenerateLink(b *coreblock.Block) (cidlink.Link, error) {
	for i := range vCurEnv.tabBlocks {
		if vCurEnv.tabBlocks[i] == b {
			return cidlink.Link{Cid: vCurEnv.tabCids[i]}, nil
		}
	}
	panic("vGenerateLink: block not in table")
}

func vLoadBlockFromBlockStore(ctx context.Context, c cid.Cid) (*coreblock.Block, error) {
	if vCurEnv.faults.hit() {
		return nil, vErrInjected
	}
	i := vCurEnv.find(c)
	if i < 0 {
		return nil, vErrNotInTable
	}
	return vCurEnv.tabBlocks[i], nil
}

// synthetic CID: a well-formed CIDv1 (dag-cbor, sha2-256) whose digest starts with (rank, idx)
func vFakeCid(rank, idx int) cid.Cid {
	mh := make([]byte, 34)
	mh[0], mh[1] = 0x12, 0x20
	mh[2], mh[3] = byte(rank), byte(idx)
	return cid.NewCidV1(cid.DagCBOR, mh)
}

const vColID = "bafyverifcollection"
const vFieldName = "f"

func vDefinition(kind int, hasField bool) client.CollectionDefinition {
	def := client.CollectionDefinition{
		Version: client.CollectionVersion{Name: "T", VersionID: "sv1", CollectionID: vColID, IsActive: true},
		Schema:  client.SchemaDescription{Name: "T", VersionID: "sv1", Root: "sv1"},
	}
	if hasField {
		sf := client.SchemaFieldDescription{Name: vFieldName}
		if kind == vFieldCounter {
			sf.Kind, sf.Typ = client.FieldKind_NILLABLE_INT, client.PN_COUNTER
		} else {
			sf.Kind, sf.Typ = client.FieldKind_NILLABLE_STRING, client.LWW_REGISTER
		}
		def.Schema.Fields = []client.SchemaFieldDescription{sf}
		def.Version.Fields = []client.CollectionFieldDescription{{Name: vFieldName}}
	}
	return def
}

func vNewEnv(kind int, hasField bool) *vEnv {
	e := &vEnv{fieldKind: kind, hasField: hasField, docID: "bae-verif-0"}
	root := &vKV{}
	e.txn = &vTxn{data: &vKV{}, head: &vKV{}, system: &vKV{}, peer: &vKV{}, root: root}
	if vSymbolic() {
		e.txn.bs = &vBS{env: e}
	} else {
		e.txn.bs = datastore.BlockstoreFrom(root)
		e.txn.enc = datastore.EncstoreFrom(root)
	}
	ctx := datastore.CtxSetTxn(context.Background(), e.txn)
	ctx = id.InitCollectionShortIDCache(ctx)
	ctx = id.InitFieldShortIDCache(ctx)
	e.ctx = ctx
	e.col = &collection{def: vDefinition(kind, hasField)}
	// short ids through the real code (sequences over the system store)
	if err := id.SetShortCollectionID(ctx, vColID); err != nil {
		panic("SetShortCollectionID")
	}
	if hasField {
		if err := id.SetShortFieldID(ctx, 1, vFieldName); err != nil {
			panic("SetShortFieldID")
		}
	}
	vCurEnv = e
	return e
}

// vDAG: commits 0..n-1; parents of commit i>0 are 1 or 2 earlier commits (solver-chosen)
// vFixedParents parses a DAG given by the runner: "-|0|1|2|0|4" lists the parents of commits 0..n-1
// ("-" none, "1,2" two parents)
func vFixedParents(spec string) [][]int {
	var out [][]int
	cur := []int{}
	num, has := 0, false
	flush := func() {
		if has {
			cur = append(cur, num)
		}
		num, has = 0, false
	}
	for i := 0; i < len(spec); i++ {
		switch ch := spec[i]; {
		case ch >= '0' && ch <= '9':
			num, has = num*10+int(ch-'0'), true
		case ch == ',':
			flush()
		case ch == '|':
			flush()
			out = append(out, cur)
			cur = []int{}
		}
	}
	flush()
	return append(out, cur)
}

func (e *vEnv) vDAG(n int, delIdx int) {
	var fixed [][]int
	if spec := vConfStr("dag"); spec != "" {
		fixed = vFixedParents(spec)
	}
	for i := 0; i < n; i++ {
		c := &vCommit{}
		if fixed != nil {
			c.parents = fixed[i]
		} else if i > 0 {
			p := vChoose("parent", i)
			// nobody writes on top of a delete: deleted documents reject local updates
			vAssume(!e.commits[p].del)
			c.parents = []int{p}
			if i > 1 && vChoose("second", 2) == 1 {
				q := vChoose("parent2", i-1)
				if q >= p {
					q++
				}
				// a second parent that is an ancestor of the first (or vice versa) cannot arise: heads are
				// pairwise concurrent
				vAssume(!e.isAncestor(q, p) && !e.isAncestor(p, q) && !e.commits[q].del)
				c.parents = append(c.parents, q)
			}
		}
		c.height = 1
		for _, p := range c.parents {
			if e.commits[p].height+1 > c.height {
				c.height = e.commits[p].height + 1
			}
		}
		c.del = i == delIdx
		if !c.del {
			if e.fieldKind == vFieldCounter {
				c.inc = int64(vI16("inc")) // increments of 16 bits keep the 64-bit sums cheap for the solver
				c.nonce = int64(i)
			} else {
				c.payload = []byte{vU8("payload")}
				// two register writes with the same parents and the same payload are one and the same commit
				// (identical content, identical hash): distinct commits differ
				for j := 0; j < i; j++ {
					o := e.commits[j]
					if !o.del && vSameParents(o.parents, c.parents) {
						vAssume(o.payload[0] != c.payload[0])
					}
				}
			}
		}
		e.commits = append(e.commits, c)
	}
	// nobody writes to a deleted document: a delete commit has no descendants on the deleting node, but
	// concurrent commits exist — both are covered since parents are arbitrary
}

func vSameParents(a, b []int) bool {
	if len(a) != len(b) {
		return false
	}
	for _, x := range a {
		found := false
		for _, y := range b {
			if x == y {
				found = true
			}
		}
		if !found {
			return false
		}
	}
	return true
}

func (e *vEnv) isAncestor(a, b int) bool { // a is an ancestor-or-self of b
	if a == b {
		return true
	}
	for _, p := range e.commits[b].parents {
		if e.isAncestor(a, p) {
			return true
		}
	}
	return false
}

func (e *vEnv) ancestors(x int, into []bool) {
	if into[x] {
		return
	}
	into[x] = true
	for _, p := range e.commits[x].parents {
		e.ancestors(p, into)
	}
}

func (e *vEnv) fieldDelta(c *vCommit, fieldHeight uint64) core.Delta {
	if e.fieldKind == vFieldCounter {
		b, err := cbor.Marshal(c.inc)
		if err != nil {
			panic("cbor")
		}
		// the nonce (random in Counter.Delta for updates) makes equal increments by different nodes distinct commits
		return &crdt.CounterDelta{DocID: []byte(e.docID), FieldName: vFieldName, Priority: fieldHeight, SchemaVersionID: "sv1", Data: b, Nonce: c.nonce}
	}
	return &crdt.LWWDelta{DocID: []byte(e.docID), FieldName: vFieldName, Priority: fieldHeight, SchemaVersionID: "sv1", Data: c.payload}
}

// latest field blocks among the ancestors of the given parents (the field's own Merkle clock heads)
func (e *vEnv) fieldHeads(parents []int) []int {
	anc := make([]bool, len(e.commits))
	for _, p := range parents {
		e.ancestors(p, anc)
	}
	var heads []int
	for i := range e.commits {
		if !anc[i] || e.commits[i].del {
			continue
		}
		maximal := true
		for j := range e.commits {
			if j != i && anc[j] && !e.commits[j].del && e.isAncestor(i, j) {
				maximal = false
			}
		}
		if maximal {
			heads = append(heads, i)
		}
	}
	return heads
}

func (e *vEnv) fieldHeight(i int) uint64 {
	h := uint64(0)
	for _, p := range e.fieldHeads(e.commits[i].parents) {
		if fh := e.fieldHeight(p); fh > h {
			h = fh
		}
	}
	return h + 1
}

// build all blocks; returns false (natively) when the real CIDs are not in the wanted hash order
func (e *vEnv) buildBlocks() bool {
	e.tabCids, e.tabBlocks = nil, nil
	sym := vSymbolic()
	for i, c := range e.commits {
		var links []coreblock.DAGLink
		if !c.del {
			var fheads []cid.Cid
			for _, p := range e.fieldHeads(c.parents) {
				fheads = append(fheads, e.commits[p].fieldCid)
			}
			c.field = coreblock.New(e.fieldDelta(c, e.fieldHeight(i)), nil, fheads...)
			if sym {
				c.fieldCid = vFakeCid(100+i, i)
			} else {
				c.fieldCid = e.store(c.field)
			}
			e.tabCids, e.tabBlocks = append(e.tabCids, c.fieldCid), append(e.tabBlocks, c.field)
			links = []coreblock.DAGLink{coreblock.NewDAGLink(vFieldName, cidlink.Link{Cid: c.fieldCid})}
		}
		status := client.Active
		if c.del {
			status = client.Deleted
		}
		delta := &crdt.DocCompositeDelta{DocID: []byte(e.docID), Priority: c.height, SchemaVersionID: "sv1", Status: status}
		var heads []cid.Cid
		for _, p := range c.parents {
			heads = append(heads, e.commits[p].compCid)
		}
		c.comp = coreblock.New(delta, links, heads...)
		if sym {
			c.compCid = vFakeCid(e.perm[i], i)
		} else {
			c.compCid = e.store(c.comp)
		}
		e.tabCids, e.tabBlocks = append(e.tabCids, c.compCid), append(e.tabBlocks, c.comp)
	}
	if sym {
		return true
	}
	// natively: is the order of the real composite CIDs the wanted one?
	for i := range e.commits {
		for j := range e.commits {
			if i != j {
				less := bytes.Compare(e.commits[i].compCid.Bytes(), e.commits[j].compCid.Bytes()) < 0
				if less != (e.perm[i] < e.perm[j]) {
					return false
				}
			}
		}
	}
	return true
}

// natively: encode the block for real and file it under its real CID in the real blockstore
func (e *vEnv) store(b *coreblock.Block) cid.Cid {
	lnk, err := b.GenerateLink()
	if err != nil {
		panic("GenerateLink")
	}
	raw, err := b.Marshal()
	if err != nil {
		panic("Marshal")
	}
	blk, err := blocks.NewBlockWithCid(raw, lnk.Cid)
	if err != nil {
		panic("NewBlockWithCid")
	}
	if err := e.txn.bs.Put(e.ctx, blk); err != nil {
		panic("blockstore put")
	}
	return lnk.Cid
}

// vHashOrder: the relative order of the composite commits' content hashes is an input
func (e *vEnv) vHashOrder() {
	n := len(e.commits)
	rest := make([]int, n)
	for i := range rest {
		rest[i] = i
	}
	e.perm = make([]int, n)
	if vConfStr("orders") == "two" {
		// larger histories: only the identity and the reversed hash order (every pair of commits is seen in
		// both relative orders)
		rev := vChoose("hashorder", 2) == 1
		for i := 0; i < n; i++ {
			e.perm[i] = i + 1
			if rev {
				e.perm[i] = n - i
			}
		}
		return
	}
	for r := 0; r < n; r++ {
		k := vChoose("hashorder", len(rest))
		e.perm[rest[k]] = r + 1
		rest = append(rest[:k:k], rest[k+1:]...)
	}
}

func (e *vEnv) build() {
	e.vHashOrder()
	if vSymbolic() {
		e.buildBlocks()
		return
	}
	for salt := 0; salt < 20000; salt++ {
		e.docID = "bae-verif-" + strconv.Itoa(salt)
		root := &vKV{}
		e.txn.root = root
		e.txn.bs = datastore.BlockstoreFrom(root)
		if e.buildBlocks() {
			return
		}
	}
	panic("could not realise the hash order natively")
}

func (e *vEnv) headKey() keys.HeadstoreKey {
	return keys.HeadstoreDocKey{DocID: e.docID, FieldID: core.COMPOSITE_NAMESPACE}
}

func (e *vEnv) newMergeProcessor() *mergeProcessor {
	if !vSymbolic() {
		mp, err := (&DB{}).newMergeProcessor(e.ctx, e.col)
		if err != nil {
			panic("newMergeProcessor")
		}
		return mp
	}
	return &mergeProcessor{
		col:                       e.col,
		docIDs:                    make(map[string]struct{}),
		composites:                list.New(),
		queued:                    make(map[cid.Cid]struct{}),
		missingEncryptionBlocks:   make(map[cidlink.Link]struct{}),
		availableEncryptionBlocks: make(map[cidlink.Link]*coreblock.Encryption),
	}
}

// deliver commit x the way executeMerge does (without transaction handling and index sync)
func (e *vEnv) deliver(x int) (*mergeProcessor, error) {
	mt, err := getHeadsAsMergeTarget(e.ctx, e.headKey())
	if err != nil {
		return nil, err
	}
	mp := e.newMergeProcessor()
	if err := mp.loadComposites(e.ctx, e.commits[x].compCid, mt); err != nil {
		return mp, err
	}
	return mp, mp.mergeComposites(e.ctx)
}

// ---- observation of the replica state at the keys the fetcher reads ----

func (e *vEnv) fieldKey() keys.DataStoreKey {
	return keys.DataStoreKey{CollectionShortID: 1, DocID: e.docID, FieldID: "1"}
}

func (e *vEnv) isDeleted() bool {
	m, ok := e.txn.data.peek(e.fieldKey().WithFieldID(core.COMPOSITE_NAMESPACE).ToPrimaryDataStoreKey().Bytes())
	return ok && len(m) == 1 && m[0] == base.DeletedObjectMarker
}

func (e *vEnv) exists() bool {
	_, ok := e.txn.data.peek(e.fieldKey().ToPrimaryDataStoreKey().Bytes())
	return ok
}

func (e *vEnv) rawValue(deleted bool) ([]byte, bool) {
	k := e.fieldKey().WithValueFlag()
	if deleted {
		k = k.WithDeletedFlag()
	}
	return e.txn.data.peek(k.Bytes())
}

func (e *vEnv) counterValue(deleted bool) (int64, bool) {
	raw, ok := e.rawValue(deleted)
	if !ok {
		return 0, false
	}
	var v int64
	if cbor.Unmarshal(raw, &v) != nil {
		return 0, false
	}
	return v, true
}

func (e *vEnv) compHeads() []cid.Cid {
	cids, err := getHeads(e.ctx, e.headKey())
	if err != nil {
		panic("getHeads")
	}
	return cids
}

func (e *vEnv) indexOfComp(c cid.Cid) int {
	for i := range e.commits {
		if e.commits[i].compCid == c {
			return i
		}
	}
	return -1
}
