//go:build verif

package db

// C19.O2 — switching the active version back and forth: the real setActiveSchemaVersion (with getActiveCollectionDown /
// getActiveCollectionUp) over a linear chain of collection versions persisted through the real description package.
// After every switch exactly the requested version is active and it is the one the collection's name resolves to
// (what queries and collection operations use), whatever the sequence of switches.
// db.loadSchema is redirected to a no-op inside the solver run; natively it runs for real with a parser that accepts
// every set of definitions (building the GraphQL types is reflection-heavy code outside the technique).

import (
	"context"

	"github.com/sourcenetwork/defradb/client"
	"github.com/sourcenetwork/defradb/internal/core"
	"github.com/sourcenetwork/defradb/internal/datastore"
	"github.com/sourcenetwork/defradb/internal/db/description"
	"github.com/sourcenetwork/defradb/internal/db/id"
)

func wLoadSchemaNoop(db *DB, ctx context.Context) error { return nil }

// natively loadSchema runs for real (it collects the active definitions) and hands them to this parser
type wParser struct{ core.Parser }

func (wParser) SetSchema(ctx context.Context, collections []client.CollectionDefinition) error { return nil }

// VerifH_C19_Switch — conf: versions (length of the chain, 2..4), switches (number of SetActiveSchemaVersion calls)
func VerifH_C19_Switch() {
	n := vConfInt("versions")
	e := vNewEnv(0, true)
	ctx := datastore.CtxSetTxn(context.Background(), e.txn)
	ctx = id.InitCollectionShortIDCache(ctx)
	ctx = id.InitFieldShortIDCache(ctx)
	ids := []string{"bafkreiswitchv1", "bafkreiswitchv2", "bafkreiswitchv3", "bafkreiswitchv4"}[:n]
	root := ids[0]
	// the chain as patchSchema leaves it: version k has version k-1 as its source, the last one is active
	for k := 0; k < n; k++ {
		fields := []client.SchemaFieldDescription{{Name: "name", Kind: client.FieldKind_NILLABLE_STRING, Typ: client.LWW_REGISTER}}
		cfields := []client.CollectionFieldDescription{{Name: "name"}}
		for j := 1; j <= k; j++ {
			fn := "added" + string(rune('0'+j))
			fields = append(fields, client.SchemaFieldDescription{Name: fn, Kind: client.FieldKind_NILLABLE_STRING, Typ: client.LWW_REGISTER})
			cfields = append(cfields, client.CollectionFieldDescription{Name: fn})
		}
		_, err := description.CreateSchemaVersion(ctx, client.SchemaDescription{Name: "Users", Root: root, VersionID: ids[k], Fields: fields})
		vBound(err == nil, "setup-schema-version")
		col := client.CollectionVersion{Name: "Users", VersionID: ids[k], CollectionID: root, IsActive: k == n-1, Fields: cfields}
		if k > 0 {
			col.Sources = []any{&client.CollectionSource{SourceCollectionID: ids[k-1]}}
		}
		vBound(description.SaveCollection(ctx, col) == nil, "setup-collection-version")
	}
	db := &DB{parser: wParser{}}
	active := n - 1
	check := func() {
		cnt := 0
		for k := 0; k < n; k++ {
			col, err := description.GetCollectionByID(ctx, ids[k])
			vAssert(err == nil, "version-readable")
			if err != nil {
				return
			}
			if col.IsActive {
				cnt++
			}
			vAssert(col.IsActive == (k == active), "exactly-the-requested-version-is-active")
			vAssert(len(col.Fields) == k+1, "version-keeps-its-fields")
		}
		vObserve("active-versions", cnt)
		byName, err := description.GetCollectionByName(ctx, "Users")
		vAssert(err == nil && byName.VersionID == ids[active], "collection-name-resolves-to-the-active-version")
	}
	check()
	for s := 0; s < vConfInt("switches"); s++ {
		k := vChoose("switch-to", n)
		err := db.setActiveSchemaVersion(ctx, ids[k])
		vAssert(err == nil, "switch-no-error")
		if err != nil {
			return
		}
		active = k
		check()
	}
	vCover("switched")
}
