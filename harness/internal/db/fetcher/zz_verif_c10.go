//go:build verif

package fetcher

// C10 — documents the requester may not read are invisible on the fetch path: the real permissionedFetcher
// and permission.CheckDocAccessWithIdentityFunc over a symbolic access-control table.

import (
	"context"
	"errors"

	"github.com/sourcenetwork/immutable"

	"github.com/sourcenetwork/defradb/acp/dac"
	acpIdentity "github.com/sourcenetwork/defradb/acp/identity"
	acpTypes "github.com/sourcenetwork/defradb/acp/types"
	"github.com/sourcenetwork/defradb/client"
	"github.com/sourcenetwork/defradb/internal/core"
	"github.com/sourcenetwork/defradb/internal/datastore"
	"github.com/sourcenetwork/defradb/internal/db/id"
	"github.com/sourcenetwork/defradb/internal/keys"
)

var pErrACP = errors.New("verif: injected acp error")

// the ACP system as a symbolic table over the documents of the scan
type pACP struct {
	dac.DocumentACP
	ids        []string
	registered []bool
	allowed    []bool
	regErr     []bool // IsDocRegistered fails for this document
	chkErr     []bool // CheckDocAccess fails for this document
	// what the system was asked
	calls      int
	badArgs    bool
	wantDID    string
	wantPolicy string
	wantRes    string
}

func (a *pACP) idx(docID string) int {
	for i := range a.ids {
		if a.ids[i] == docID {
			return i
		}
	}
	return -1
}

func (a *pACP) IsDocRegistered(ctx context.Context, policyID, resourceName, docID string) (bool, error) {
	a.calls++
	if policyID != a.wantPolicy || resourceName != a.wantRes {
		a.badArgs = true
	}
	i := a.idx(docID)
	if i < 0 {
		a.badArgs = true
		return false, nil
	}
	if a.regErr[i] {
		return false, pErrACP
	}
	return a.registered[i], nil
}

func (a *pACP) CheckDocAccess(ctx context.Context, perm acpTypes.DocumentResourcePermission, actorID, policyID, resourceName, docID string) (bool, error) {
	a.calls++
	if policyID != a.wantPolicy || resourceName != a.wantRes || actorID != a.wantDID || perm != acpTypes.DocumentReadPerm {
		a.badArgs = true
	}
	i := a.idx(docID)
	if i < 0 {
		a.badArgs = true
		return false, nil
	}
	if a.chkErr[i] {
		return false, pErrACP
	}
	return a.allowed[i], nil
}

type pIdentity struct {
	acpIdentity.Identity
	did string
}

func (i pIdentity) DID() string { return i.did }

// inner fetcher yielding the given document ids
type pInner struct {
	ids    []string
	pos    int
	failAt int
}

func (f *pInner) NextDoc() (immutable.Option[string], error) {
	if f.pos == f.failAt {
		f.pos++
		return immutable.None[string](), pErrACP
	}
	if f.pos >= len(f.ids) {
		return immutable.None[string](), nil
	}
	f.pos++
	return immutable.Some(f.ids[f.pos-1]), nil
}
func (f *pInner) GetFields() (immutable.Option[EncodedDocument], error) {
	return immutable.None[EncodedDocument](), nil
}
func (f *pInner) Close() error { return nil }

// VerifH_C10_Stream — O1: the stream of the permissioned fetcher equals the inner stream without exactly
// the documents for which (policy present ∧ registered ∧ ¬allowed); an ACP error ends the stream with that
// error and never with a document. O2: the ACP system is asked with the requester's DID (or ""), the
// collection's policy id and resource name and the read permission. conf: n (documents), policy (0/1),
// identity (0 none, 1 present)
func VerifH_C10_Stream() {
	n := vConfInt("n")
	hasPolicy := vConfInt("policy") != 0
	def := client.CollectionDefinition{Version: client.CollectionVersion{Name: "T", CollectionID: "col"}}
	if hasPolicy {
		def.Version.Policy = immutable.Some(client.PolicyDescription{ID: "pol1", ResourceName: "res1"})
	}
	acp := &pACP{wantPolicy: "pol1", wantRes: "res1"}
	ident := immutable.None[acpIdentity.Identity]()
	if vConfInt("identity") != 0 {
		ident = immutable.Some[acpIdentity.Identity](pIdentity{did: "did:key:alice"})
		acp.wantDID = "did:key:alice"
	}
	inner := &pInner{failAt: -1}
	for i := 0; i < n; i++ {
		id := "bae-doc" + string(rune('0'+i))
		inner.ids = append(inner.ids, id)
		acp.ids = append(acp.ids, id)
		acp.registered = append(acp.registered, vBool("registered"))
		acp.allowed = append(acp.allowed, vBool("allowed"))
		acp.regErr = append(acp.regErr, vBool("regerr"))
		acp.chkErr = append(acp.chkErr, vBool("chkerr"))
	}
	f := newPermissionedFetcher(context.Background(), ident, acp, &vCol{def: def}, inner)
	var got []string
	var gotErr error
	for k := 0; k < n+2; k++ {
		d, err := f.NextDoc()
		if err != nil {
			vAssert(!d.HasValue(), "no-document-with-an-error")
			gotErr = err
			break
		}
		if !d.HasValue() {
			break
		}
		got = append(got, d.Value())
	}
	vCover("streamed")
	// reference
	var want []string
	wantErr := false
	for i := 0; i < n && !wantErr; i++ {
		if !hasPolicy {
			want = append(want, acp.ids[i])
			continue
		}
		if acp.regErr[i] {
			wantErr = true
			break
		}
		if !acp.registered[i] {
			want = append(want, acp.ids[i])
			continue
		}
		if acp.chkErr[i] {
			wantErr = true
			break
		}
		if acp.allowed[i] {
			want = append(want, acp.ids[i])
		}
	}
	vAssert((gotErr != nil) == wantErr, "acp-error-ends-the-stream-with-an-error")
	vAssert(len(got) == len(want), "exactly-the-readable-documents")
	for i := 0; i < len(got) && i < len(want); i++ {
		vAssert(got[i] == want[i], "exactly-the-readable-documents-in-order")
	}
	vAssert(!acp.badArgs, "acp-asked-with-requester-policy-resource-and-read-permission")
	vObserve("n", len(got))
}

// VerifH_C10_NoCaching — O2: grant/revoke is visible on the next call
func VerifH_C10_NoCaching() {
	def := client.CollectionDefinition{Version: client.CollectionVersion{Name: "T", CollectionID: "col",
		Policy: immutable.Some(client.PolicyDescription{ID: "pol1", ResourceName: "res1"})}}
	acp := &pACP{wantPolicy: "pol1", wantRes: "res1", ids: []string{"bae-doc0"}, registered: []bool{true},
		allowed: []bool{vBool("before")}, regErr: []bool{false}, chkErr: []bool{false}}
	ident := immutable.None[acpIdentity.Identity]()
	run := func() bool {
		inner := &pInner{ids: []string{"bae-doc0"}, failAt: -1}
		d, err := newPermissionedFetcher(context.Background(), ident, acp, &vCol{def: def}, inner).NextDoc()
		vAssert(err == nil, "no-error")
		return d.HasValue()
	}
	first := run()
	vAssert(first == acp.allowed[0], "first-call-follows-the-table")
	acp.allowed[0] = vBool("after")
	second := run()
	vCover("ran")
	vAssert(second == acp.allowed[0], "change-visible-on-the-next-call")
}

// VerifH_C10_Reach — vacuity twin
func VerifH_C10_Reach() {
	def := client.CollectionDefinition{Version: client.CollectionVersion{Name: "T", CollectionID: "col",
		Policy: immutable.Some(client.PolicyDescription{ID: "pol1", ResourceName: "res1"})}}
	acp := &pACP{wantPolicy: "pol1", wantRes: "res1", ids: []string{"bae-doc0"}, registered: []bool{true},
		allowed: []bool{vBool("allowed")}, regErr: []bool{false}, chkErr: []bool{false}}
	inner := &pInner{ids: []string{"bae-doc0"}, failAt: -1}
	d, _ := newPermissionedFetcher(context.Background(), immutable.None[acpIdentity.Identity](), acp, &vCol{def: def}, inner).NextDoc()
	vCover("end")
	vAssert(!d.HasValue(), "reach-twin")
}

// ---- O3 (part): the permissioned fetcher over the real multiFetcher (showDeleted: active + deleted streams) ----

type pLivelock struct{}

// pCountingACP panics once the ACP system has been consulted far more often than there are documents
type pCountingACP struct {
	*pACP
	limit int
}

func (a *pCountingACP) IsDocRegistered(ctx context.Context, policyID, resourceName, docID string) (bool, error) {
	if a.pACP.calls > a.limit {
		panic(pLivelock{})
	}
	return a.pACP.IsDocRegistered(ctx, policyID, resourceName, docID)
}

// VerifH_C10_ShowDeleted — the fetch loop of wrappingFetcher.FetchNext (NextDoc, then GetFields for every
// yielded document) over permissionedFetcher(multiFetcher(active, deleted)): terminates and yields exactly the
// readable documents of both streams in document-id order. conf: n (documents)
func VerifH_C10_ShowDeleted() {
	n := vConfInt("n")
	def := client.CollectionDefinition{Version: client.CollectionVersion{Name: "T", CollectionID: "col",
		Policy: immutable.Some(client.PolicyDescription{ID: "pol1", ResourceName: "res1"})}}
	acp := &pACP{wantPolicy: "pol1", wantRes: "res1"}
	active, deleted := &pInner{failAt: -1}, &pInner{failAt: -1}
	var readable []bool
	for i := 0; i < n; i++ {
		id := "bae-doc" + string(rune('0'+i))
		acp.ids = append(acp.ids, id)
		reg, allowed := vBool("registered"), vBool("allowed")
		acp.registered = append(acp.registered, reg)
		acp.allowed = append(acp.allowed, allowed)
		acp.regErr = append(acp.regErr, false)
		acp.chkErr = append(acp.chkErr, false)
		readable = append(readable, !reg || allowed)
		if vChoose("is-deleted", 2) == 1 {
			deleted.ids = append(deleted.ids, id)
		} else {
			active.ids = append(active.ids, id)
		}
	}
	top := newPermissionedFetcher(context.Background(), immutable.None[acpIdentity.Identity](),
		&pCountingACP{pACP: acp, limit: 8 * (n + 1)}, &vCol{def: def}, newMultiFetcher(active, deleted))
	var got []string
	terminated := false
	func() {
		defer func() {
			if r := recover(); r != nil {
				if _, ok := r.(pLivelock); !ok {
					panic(r)
				}
			}
		}()
		for k := 0; k < n+2; k++ {
			d, err := top.NextDoc()
			vAssert(err == nil, "next-no-error")
			if err != nil || !d.HasValue() {
				break
			}
			got = append(got, d.Value())
			_, err = top.GetFields()
			vAssert(err == nil, "getfields-no-error")
		}
		terminated = true
	}()
	vCover("fetched")
	vAssert(terminated, "fetch-loop-terminates")
	if !terminated {
		return
	}
	var want []string
	for i := 0; i < n; i++ {
		if readable[i] {
			want = append(want, acp.ids[i])
		}
	}
	vAssert(len(got) == len(want), "exactly-the-readable-documents")
	for i := 0; i < len(got) && i < len(want); i++ {
		vAssert(got[i] == want[i], "exactly-the-readable-documents-in-order")
	}
	vObserve("n", len(got))
}

// VerifH_C10_Stack — the fetcher stack as wrappingFetcher.Start composes it (prefix fetchers over the document
// store, the merge with the deleted documents when showDeleted is set, the permissioned fetcher) driven through
// Init / Start / FetchNext: the documents returned are exactly the readable ones (of the requested statuses), in
// document-id order, as if the others did not exist. conf: n (documents), deleted (1: showDeleted)
func VerifH_C10_Stack() {
	n := vConfInt("n")
	showDeleted := vConfInt("deleted") != 0
	def := client.CollectionDefinition{
		Version: client.CollectionVersion{Name: "T", VersionID: "sv1", CollectionID: "col", IsActive: true,
			Policy: immutable.Some(client.PolicyDescription{ID: "pol1", ResourceName: "res1"}),
			Fields: []client.CollectionFieldDescription{{Name: "f"}}},
		Schema: client.SchemaDescription{Name: "T", VersionID: "sv1", Root: "sv1",
			Fields: []client.SchemaFieldDescription{{Name: "f", Kind: client.FieldKind_NILLABLE_INT, Typ: client.LWW_REGISTER}}},
	}
	txn := &iTxn{data: &vKV{}, system: &vKV{}}
	ctx := datastore.CtxSetTxn(context.Background(), txn)
	ctx = id.InitCollectionShortIDCache(ctx)
	ctx = id.InitFieldShortIDCache(ctx)
	if id.SetShortCollectionID(ctx, "col") != nil {
		panic("short collection id")
	}
	if id.SetShortFieldID(ctx, 1, "f") != nil {
		panic("short field id")
	}
	acp := &pACP{wantPolicy: "pol1", wantRes: "res1"}
	var readable, isDeleted []bool
	for i := 0; i < n; i++ {
		// (document ids have the fixed length of "bae-" + a UUID: the key decoder relies on it)
		docID := "bae-00000000-0000-0000-0000-00000000000" + string(rune('0'+i))
		acp.ids = append(acp.ids, docID)
		reg, allowed := vBool("registered"), vBool("allowed")
		acp.registered = append(acp.registered, reg)
		acp.allowed = append(acp.allowed, allowed)
		acp.regErr = append(acp.regErr, false)
		acp.chkErr = append(acp.chkErr, false)
		readable = append(readable, !reg || allowed)
		del := vChoose("is-deleted", 2) == 1
		isDeleted = append(isDeleted, del)
		// the document as collection.save / applyDelete leave it: the marker of the document and one field value,
		// under the value prefix or under the deleted prefix
		for _, fieldID := range []string{keys.DATASTORE_DOC_VERSION_FIELD_ID, "1"} {
			k := keys.DataStoreKey{CollectionShortID: 1, DocID: docID, FieldID: fieldID}
			if del {
				k = k.WithDeletedFlag()
			} else {
				k = k.WithValueFlag()
			}
			val := []byte("sv1")
			if fieldID == "1" {
				val = []byte{0x01}
			}
			txn.data.put(k.Bytes(), val)
		}
	}
	f := NewDocumentFetcher()
	var dacp dac.DocumentACP = &pCountingACP{pACP: acp, limit: 8 * (n + 1)}
	err := f.Init(ctx, immutable.None[acpIdentity.Identity](), txn, immutable.Some(dacp), immutable.None[client.IndexDescription](),
		&vCol{def: def}, nil, nil, nil, core.NewDocumentMapping(), showDeleted)
	vAssert(err == nil, "no-error")
	if err != nil {
		return
	}
	err = f.Start(ctx)
	vAssert(err == nil, "no-error")
	if err != nil {
		return
	}
	var got []string
	terminated := false
	func() {
		defer func() {
			if r := recover(); r != nil {
				if _, ok := r.(pLivelock); !ok {
					panic(r)
				}
			}
		}()
		for k := 0; k < n+2; k++ {
			d, _, err := f.FetchNext(ctx)
			vAssert(err == nil, "next-no-error")
			if err != nil || d == nil {
				break
			}
			got = append(got, string(d.ID()))
			vAssert((d.Status() == client.Deleted) == isDeleted[acp.idx(string(d.ID()))], "status-as-stored")
		}
		terminated = true
	}()
	vCover("fetched")
	vAssert(terminated, "fetch-loop-terminates")
	if !terminated {
		return
	}
	var want []string
	for i := 0; i < n; i++ {
		if readable[i] && (showDeleted || !isDeleted[i]) {
			want = append(want, acp.ids[i])
		}
	}
	vObserve("got", len(got))
	vAssert(len(got) == len(want), "exactly-the-readable-documents")
	for i := 0; i < len(got) && i < len(want); i++ {
		vAssert(got[i] == want[i], "exactly-the-readable-documents-in-order")
	}
}
