//go:build verif

package fetcher

// C05.O1 on the read path that filtered updates / deletes, upserts and link validation rely on: a store operation that
// fails while documents are fetched makes FetchNext return an error — never a document with only part of its fields
// (a filter evaluated on a partial document silently skips or wrongly matches it and the mutation commits).
// The real wrappingFetcher / prefixFetcher / documentFetcher over the key-value model with a symbolic fault schedule.

import (
	"context"

	"github.com/sourcenetwork/immutable"

	"github.com/sourcenetwork/defradb/acp/dac"
	acpIdentity "github.com/sourcenetwork/defradb/acp/identity"
	"github.com/sourcenetwork/defradb/client"
	"github.com/sourcenetwork/defradb/internal/core"
	"github.com/sourcenetwork/defradb/internal/datastore"
	"github.com/sourcenetwork/defradb/internal/db/id"
	"github.com/sourcenetwork/defradb/internal/keys"
)

// VerifH_C05_FetchFaults — conf: n (documents), window
func VerifH_C05_FetchFaults() {
	n := vConfInt("n")
	fieldNames := []string{"age", "team"}
	def := client.CollectionDefinition{
		Version: client.CollectionVersion{Name: "T", VersionID: "sv1", CollectionID: "col", IsActive: true,
			Fields: []client.CollectionFieldDescription{{Name: "age"}, {Name: "team"}}},
		Schema: client.SchemaDescription{Name: "T", VersionID: "sv1", Root: "sv1", Fields: []client.SchemaFieldDescription{
			{Name: "age", Kind: client.FieldKind_NILLABLE_INT, Typ: client.LWW_REGISTER},
			{Name: "team", Kind: client.FieldKind_NILLABLE_STRING, Typ: client.LWW_REGISTER}}},
	}
	txn := &iTxn{data: &vKV{}, system: &vKV{}}
	ctx := datastore.CtxSetTxn(context.Background(), txn)
	ctx = id.InitCollectionShortIDCache(ctx)
	ctx = id.InitFieldShortIDCache(ctx)
	if id.SetShortCollectionID(ctx, "col") != nil {
		panic("short collection id")
	}
	for _, f := range fieldNames {
		if id.SetShortFieldID(ctx, 1, f) != nil {
			panic("short field id")
		}
	}
	for i := 0; i < n; i++ {
		docID := "bae-00000000-0000-0000-0000-00000000000" + string(rune('0'+i))
		for _, fieldID := range []string{keys.DATASTORE_DOC_VERSION_FIELD_ID, "1", "2"} {
			k := keys.DataStoreKey{CollectionShortID: 1, DocID: docID, FieldID: fieldID}.WithValueFlag()
			txn.data.put(k.Bytes(), []byte{0x01})
		}
	}
	f := NewDocumentFetcher()
	err := f.Init(ctx, immutable.None[acpIdentity.Identity](), txn, immutable.None[dac.DocumentACP](), immutable.None[client.IndexDescription](),
		&vCol{def: def}, nil, nil, nil, core.NewDocumentMapping(), false)
	vBound(err == nil, "init")
	faults := &vFaults{window: vConfInt("window"), max: 1}
	txn.data.faults = faults
	failed := false
	err = f.Start(ctx)
	if err != nil {
		failed = true
	}
	complete := 0
	for k := 0; k < n+1 && !failed; k++ {
		d, _, err := f.FetchNext(ctx)
		if err != nil {
			failed = true
			break
		}
		if d == nil {
			break
		}
		ed, ok := d.(*encodedDocument)
		vBound(ok, "encoded-document")
		if ok {
			vAssert(len(ed.properties) == len(fieldNames), "a-returned-document-has-all-its-fields")
			complete++
		}
	}
	txn.data.faults = nil
	vCover("ran")
	vBound(faults.count <= faults.window, "window-covers-all-store-operations")
	if faults.injected > 0 {
		vAssert(failed, "fault-propagates")
	} else {
		vAssert(!failed && complete == n, "no-fault-no-error")
	}
}
