//go:build verif

package fetcher

import (
	"bytes"

	"github.com/sourcenetwork/corekv"
	"github.com/sourcenetwork/immutable"

	"github.com/sourcenetwork/defradb/acp/dac"
	acpIdentity "github.com/sourcenetwork/defradb/acp/identity"
	"github.com/sourcenetwork/defradb/client"
	"github.com/sourcenetwork/defradb/internal/core"
	"github.com/sourcenetwork/defradb/internal/keys"
)

// VerifH_C03_ReadWithIndexedFilter — the whole time-travel read through the real VersionedFetcher.Init / Start / FetchNext
// for a collection whose field has a secondary index that the planner hands to the fetcher: the document is returned
// (the replayed state lives in a temporary store that holds no index entries).
func VerifH_C03_ReadWithIndexedFilter() {
	e := vNewEnv(vFieldLWW, true)
	// (a document id of the real length: the key decoder of the document fetcher relies on it)
	e.docID = "bae-00000000-0000-0000-0000-0000000000d0"
	e.vDAG(2, -1)
	for i := range e.commits {
		// (a register whose latest write is null has no value key: not the subject here)
		vAssume(!bytes.Equal(e.commits[i].payload, client.CborNil))
	}
	e.build()
	VerifMemStore = func() corekv.TxnStore { return vNewStore() }
	defer func() { VerifMemStore = nil }()
	withIndex := vBool("planner-hands-over-an-index")
	idx := immutable.None[client.IndexDescription]()
	def := e.def
	if withIndex {
		d := client.IndexDescription{Name: "idx", ID: 1, Fields: []client.IndexedFieldDescription{{Name: vFieldName}}}
		def.Version.Indexes = []client.IndexDescription{d}
		idx = immutable.Some(d)
	}
	vf := &VersionedFetcher{}
	err := vf.Init(e.ctx, immutable.None[acpIdentity.Identity](), e.txn, immutable.None[dac.DocumentACP](), idx, &vCol{def: def}, nil, nil, nil, core.NewDocumentMapping(), false)
	vAssert(err == nil, "init-no-error")
	if err != nil {
		return
	}
	target := vChoose("target", 2)
	err = vf.Start(e.ctx, keys.HeadstoreDocKey{DocID: e.docID, Cid: e.commits[target].compCid})
	vAssert(err == nil, "start-no-error")
	if err != nil {
		return
	}
	doc, _, err := vf.FetchNext(e.ctx)
	vCover("read")
	vAssert(err == nil, "fetch-no-error")
	vAssert(doc != nil && string(doc.ID()) == e.docID, "document-is-returned-at-the-commit")
	vObserve("found", doc != nil)
}
