//go:build verif

package fetcher

import "github.com/sourcenetwork/corekv"

// VerifMemStore, when set, supplies the temporary store of VersionedFetcher.Init instead of corekv's in-memory store
// (used through a source patch in the overlay copy of versioned.go, regenerated from the current file on every run)
var VerifMemStore func() corekv.TxnStore
