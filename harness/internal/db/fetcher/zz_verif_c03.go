//go:build verif

package fetcher

// C03 — a document queried at a commit shows exactly the state of that commit: the real
// VersionedFetcher.seekTo (seekNext + merge → ProcessBlock → CRDT merges) over the symbolic commit DAG of
// the merge-walk environment; the transient store must equal "each ancestor-or-self applied exactly once".

import (
	"bytes"
	"container/list"

	"github.com/sourcenetwork/defradb/client"
	"github.com/sourcenetwork/defradb/internal/datastore"
)

// client.Collection of which only the definition is consulted
type vCol struct {
	client.Collection
	def client.CollectionDefinition
}

func (c *vCol) Definition() client.CollectionDefinition { return c.def }
func (c *vCol) Version() client.CollectionVersion       { return c.def.Version }
func (c *vCol) Schema() client.SchemaDescription        { return c.def.Schema }

// transient transaction of the versioned fetcher
func (e *vEnv) transient() *vTxn {
	root := &vKV{}
	t := &vTxn{data: &vKV{}, head: &vKV{}, system: e.txn.system, peer: &vKV{}, root: root}
	if vSymbolic() {
		t.bs = &vBS{env: e}
	} else {
		t.bs = datastore.BlockstoreFrom(root)
	}
	return t
}

// VerifH_C03_SeekTo — conf: n, kind (0 register, 1 counter), dag/orders as in the merge-walk harness,
// class: 0 = the target commit has no ancestor with two parents and a single-parent chain (linear history),
// 2 = unrestricted
func VerifH_C03_SeekTo() {
	n, kind := vConfInt("n"), vConfInt("kind")
	e := vNewEnv(kind, true)
	// conf del: the last commit deletes the document (-1: none)
	del := vConfInt("del")
	e.vDAG(n, del)
	e.build()
	c := vChoose("target", n)
	tr := e.transient()
	// the transient store of a time-travel read is an in-memory store
	tr.data.memLocks = true
	vf := &VersionedFetcher{txn: e.txn, store: tr, ctx: e.ctx, col: &vCol{def: e.def}, queuedCids: list.New()}
	headBefore, dataBefore := e.txn.head.clone(), e.txn.data.clone()
	err := vf.seekTo(e.commits[c].compCid)
	vCover("sought")
	vAssert(err == nil, "seek-no-error")
	// a read at a commit must not write to the transaction it runs in (its heads and documents)
	vAssert(vKVEqual(headBefore, e.txn.head), "read-leaves-the-heads-of-the-surrounding-transaction-untouched")
	vAssert(vKVEqual(dataBefore, e.txn.data), "read-leaves-the-documents-of-the-surrounding-transaction-untouched")
	if err != nil {
		return
	}
	anc := make([]bool, n)
	e.ancestors(c, anc)
	// observe the transient data store at the keys the fetcher reads
	saved := e.txn
	e.txn = tr
	defer func() { e.txn = saved }()
	vAssert(e.exists(), "document-exists-at-commit")
	if del >= 0 && anc[del] {
		vAssert(e.isDeleted(), "deleted-at-and-after-the-delete-commit")
		return
	}
	vAssert(!e.isDeleted(), "not-deleted")
	if kind == vFieldCounter {
		sum := int64(0)
		for i := 0; i < n; i++ {
			if anc[i] {
				sum += e.commits[i].inc
			}
		}
		v, ok := e.counterValue(false)
		vAssert(ok, "counter-present")
		vAssert(v == sum, "counter-is-sum-of-increments-up-to-the-commit-each-once")
		vObserve("counter", v)
		return
	}
	best := -1
	var bestH uint64
	for i := 0; i < n; i++ {
		if !anc[i] {
			continue
		}
		h := e.fieldHeight(i)
		if best < 0 || h > bestH || (h == bestH && bytes.Compare(e.commits[i].payload, e.commits[best].payload) > 0) {
			best, bestH = i, h
		}
	}
	val, ok := e.rawValue(false)
	if bytes.Equal(e.commits[best].payload, client.CborNil) {
		vAssert(!ok, "null-winner-clears-value")
	} else {
		vAssert(ok && bytes.Equal(val, e.commits[best].payload), "register-holds-the-latest-write-up-to-the-commit")
	}
	vObserve("register", val)
}

// VerifH_C03_Reach — vacuity twin
func VerifH_C03_Reach() {
	e := vNewEnv(vFieldCounter, true)
	e.vDAG(2, -1)
	e.build()
	tr := e.transient()
	vf := &VersionedFetcher{txn: e.txn, store: tr, ctx: e.ctx, col: &vCol{def: e.def}, queuedCids: list.New()}
	err := vf.seekTo(e.commits[0].compCid)
	e.txn = tr
	v, _ := e.counterValue(false)
	vCover("end")
	vAssert(err != nil || v != e.commits[0].inc, "reach-twin")
}
