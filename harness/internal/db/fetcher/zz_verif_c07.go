//go:build verif

package fetcher

// C07 — secondary indexes never change what a query returns (read side): the real index fetcher
// (newIndexFetcher → createIndexIterator → iterators/matchers → NextDoc) over a key-value model holding the
// index entries of symbolic documents, against the scan path's own predicate mapper.RunFilter (real connor)
// on the same documents.

import (
	"context"

	"github.com/sourcenetwork/corekv"

	"github.com/sourcenetwork/defradb/client"
	"github.com/sourcenetwork/defradb/internal/connor"
	"github.com/sourcenetwork/defradb/internal/core"
	"github.com/sourcenetwork/defradb/internal/datastore"
	"github.com/sourcenetwork/defradb/internal/db/base"
	"github.com/sourcenetwork/defradb/internal/db/id"
	"github.com/sourcenetwork/defradb/internal/keys"
	"github.com/sourcenetwork/defradb/internal/planner/mapper"
)

const (
	ikInt = iota
	ikFloat
	ikString
	ikBool
)

type iTxn struct {
	datastore.Txn
	data, system *vKV
}

func (t *iTxn) Datastore() corekv.ReaderWriter   { return t.data }
func (t *iTxn) Systemstore() corekv.ReaderWriter { return t.system }

type iVal struct {
	kind int
	null bool
	i    int64
	f    float64
	s    string
	b    bool
}

func iMkVal(name string, kind int, nullable bool) iVal {
	v := iVal{kind: kind}
	if nullable && vChoose(name+".null", 2) == 1 {
		v.null = true
		return v
	}
	switch kind {
	case ikInt:
		// 8-bit range (three length classes of the varint encoder); the full-width encoding is C17's subject
		v.i = int64(vI8(name))
	case ikFloat:
		v.f = vF64(name)
		vAssume(v.f == v.f)
	case ikString:
		n := vChoose(name+".len", 1+vConfInt("slen"))
		b := make([]byte, n)
		for k := range b {
			b[k] = vU8(name + ".b")
			// field values are valid UTF-8 text; keep to ASCII (multi-byte sequences are bytes to the encoder)
			vAssume(b[k] < 0x80)
		}
		v.s = string(b)
	case ikBool:
		v.b = vBool(name)
	}
	return v
}

func iFieldKind(kind int) client.FieldKind {
	switch kind {
	case ikInt:
		return client.FieldKind_NILLABLE_INT
	case ikFloat:
		return client.FieldKind_NILLABLE_FLOAT64
	case ikString:
		return client.FieldKind_NILLABLE_STRING
	}
	return client.FieldKind_NILLABLE_BOOL
}

func (v iVal) normal() client.NormalValue {
	if v.null {
		n, err := client.NewNormalNil(iFieldKind(v.kind))
		if err != nil {
			panic("NewNormalNil")
		}
		return n
	}
	switch v.kind {
	case ikInt:
		return client.NewNormalInt(v.i)
	case ikFloat:
		return client.NewNormalFloat64(v.f)
	case ikString:
		return client.NewNormalString(v.s)
	}
	return client.NewNormalBool(v.b)
}

func (v iVal) box() any {
	if v.null {
		return nil
	}
	switch v.kind {
	case ikInt:
		return v.i
	case ikFloat:
		return v.f
	case ikString:
		return v.s
	}
	return v.b
}

func iEq(a, b iVal) bool {
	if a.null || b.null {
		return a.null && b.null
	}
	switch a.kind {
	case ikInt:
		return a.i == b.i
	case ikFloat:
		return a.f == b.f
	case ikString:
		return a.s == b.s
	}
	return a.b == b.b
}

var iOps = []string{"_eq", "_ne", "_gt", "_ge", "_lt", "_le", "_in", "_nin"}

const iColID = "bafyverifcol"

type iDoc struct {
	id   string
	vals []iVal
	// a field the index does not cover (conf or=1)
	extra iVal
}

// VerifH_C07_Index — conf: k0,k1 (kinds; k1 = -1 for a single-field index), unique, op0 (operator index on the
// first field, -1 none), op1 (on the second field, -1 none), docs (2..3), order (0 none, 1 by first field ASC,
// 2 by first field DESC), cnull (1: the filter constant of op0 is null)
func VerifH_C07_Index() {
	k0, k1 := vConfInt("k0"), vConfInt("k1")
	nf := 1
	kinds := []int{k0}
	if k1 >= 0 {
		nf = 2
		kinds = append(kinds, k1)
	}
	unique := vConfInt("unique") != 0
	names := []string{"f0", "f1"}
	// collection definition and mapping
	def := client.CollectionDefinition{
		Version: client.CollectionVersion{Name: "T", VersionID: "sv1", CollectionID: iColID, IsActive: true},
		Schema:  client.SchemaDescription{Name: "T", VersionID: "sv1", Root: "sv1"},
	}
	mapping := core.NewDocumentMapping()
	idx := client.IndexDescription{Name: "idx", ID: 1, Unique: unique}
	for i := 0; i < nf; i++ {
		def.Schema.Fields = append(def.Schema.Fields, client.SchemaFieldDescription{Name: names[i], Kind: iFieldKind(kinds[i]), Typ: client.LWW_REGISTER})
		def.Version.Fields = append(def.Version.Fields, client.CollectionFieldDescription{Name: names[i]})
		mapping.IndexesByName[names[i]] = []int{i}
		idx.Fields = append(idx.Fields, client.IndexedFieldDescription{Name: names[i], Descending: vChoose("desc", 2) == 1})
	}
	col := &vCol{def: def}
	// store
	txn := &iTxn{data: &vKV{}, system: &vKV{}}
	ctx := datastore.CtxSetTxn(context.Background(), txn)
	ctx = id.InitCollectionShortIDCache(ctx)
	ctx = id.InitFieldShortIDCache(ctx)
	if id.SetShortCollectionID(ctx, iColID) != nil {
		panic("short id")
	}
	// documents and their index entries (shape of collectionBaseIndex.getDocumentsIndexKey /
	// makeUniqueKeyValueRecord)
	nd := vConfInt("docs")
	docs := make([]iDoc, nd)
	for d := 0; d < nd; d++ {
		docs[d].id = "bae-doc" + string(rune('0'+d))
		if vConfInt("or") != 0 && nf == 1 {
			docs[d].extra = iMkVal("x"+string(rune('0'+d)), 0, false)
		}
		hasNil := false
		var fields []keys.IndexedField
		for i := 0; i < nf; i++ {
			v := iMkVal("d"+string(rune('0'+d))+names[i], kinds[i], true)
			docs[d].vals = append(docs[d].vals, v)
			hasNil = hasNil || v.null
			fields = append(fields, keys.IndexedField{Value: v.normal(), Descending: idx.Fields[i].Descending})
		}
		if unique && !hasNil {
			// a unique index never holds two live documents with the same non-null tuple
			for p := 0; p < d; p++ {
				same := true
				for i := 0; i < nf; i++ {
					same = vAnd(same, iEq(docs[p].vals[i], docs[d].vals[i]))
				}
				vAssume(!same)
			}
			key := keys.NewIndexDataStoreKey(1, idx.ID, fields)
			txn.data.put(key.Bytes(), []byte(docs[d].id))
		} else {
			fields = append(fields, keys.IndexedField{Value: client.NewNormalString(docs[d].id)})
			key := keys.NewIndexDataStoreKey(1, idx.ID, fields)
			txn.data.put(key.Bytes(), []byte{})
		}
	}
	// filter
	conds := map[connor.FilterKey]any{}
	mkCond := func(fi int, opi int, cname string, cnull bool) {
		op := iOps[opi]
		c := iMkVal(cname, kinds[fi], false)
		var arg any = c.box()
		if cnull {
			arg = nil
		}
		if op == "_in" || op == "_nin" {
			c2 := iMkVal(cname+"b", kinds[fi], false)
			arg = []any{c.box(), c2.box()}
			if cnull {
				arg = []any{c.box(), nil}
			}
		}
		conds[&mapper.PropertyIndex{Index: fi}] = map[connor.FilterKey]any{&mapper.Operator{Operation: op}: arg}
	}
	if op0 := vConfInt("op0"); op0 >= 0 {
		mkCond(0, op0, "c0", vConfInt("cnull") != 0)
	}
	if op1 := vConfInt("op1"); op1 >= 0 && nf == 2 {
		mkCond(1, op1, "c1", false)
	}
	// conf or=1: the condition on the indexed field is one branch of an _or whose other branch is a condition on a
	// field the index does not cover (the second document field, when the index has one field): documents that
	// satisfy only the other branch must be returned as well
	if vConfInt("or") != 0 && nf == 1 {
		other := iMkVal("cx", 0, false)
		conds = map[connor.FilterKey]any{&mapper.Operator{Operation: "_or"}: []any{
			conds,
			map[connor.FilterKey]any{&mapper.PropertyIndex{Index: 1}: map[connor.FilterKey]any{&mapper.Operator{Operation: "_eq"}: other.box()}},
		}}
	}
	var flt *mapper.Filter
	if len(conds) > 0 {
		flt = &mapper.Filter{Conditions: conds}
	}
	var ordering []mapper.OrderCondition
	switch vConfInt("order") {
	case 1:
		ordering = []mapper.OrderCondition{{FieldIndexes: []int{0}, Direction: mapper.ASC}}
	case 2:
		ordering = []mapper.OrderCondition{{FieldIndexes: []int{0}, Direction: mapper.DESC}}
	}
	f, err := newIndexFetcher(ctx, txn, nil, idx, flt, col, mapping, &ExecInfo{}, ordering)
	vAssert(err == nil, "index-fetcher-no-error")
	if err != nil {
		return
	}
	if f == nil {
		// the index cannot serve this request: the planner falls back to a scan
		vCover("not-usable")
		return
	}
	var got []string
	for n := 0; n < nd+2; n++ {
		docID, err := f.NextDoc()
		vAssert(err == nil, "next-no-error")
		if err != nil || !docID.HasValue() {
			break
		}
		got = append(got, docID.Value())
	}
	vCover("fetched")
	// O2: no document twice
	for i := range got {
		for j := i + 1; j < len(got); j++ {
			vAssert(got[i] != got[j], "no-duplicates")
		}
	}
	// O1: every document the scan path would return is yielded by the index path (the document filter is
	// applied again after the index fetch, so a superset is harmless, a missing row is a wrong result)
	pos := make([]int, nd)
	for d := range docs {
		pos[d] = -1
		for p, g := range got {
			if g == docs[d].id {
				pos[d] = p
			}
		}
		row := core.Doc{Fields: make(core.DocFields, nf)}
		for i := 0; i < nf; i++ {
			row.Fields[i] = docs[d].vals[i].box()
		}
		if vConfInt("or") != 0 && nf == 1 {
			row.Fields = append(row.Fields, docs[d].extra.box())
		}
		match, err := mapper.RunFilter(row, flt)
		vAssert(err == nil, "scan-filter-no-error")
		if match {
			vAssert(pos[d] >= 0, "complete")
		}
	}
	for _, g := range got {
		known := false
		for d := range docs {
			known = known || g == docs[d].id
		}
		vAssert(known, "only-existing-documents")
	}
	// O3: when the index is said to serve the requested order, the yielded sequence is in that order
	if ordered, _ := CanBeOrderedByIndex(ordering, idx, mapping); ordered && len(ordering) > 0 {
		for a := range docs {
			for b := range docs {
				if pos[a] >= 0 && pos[b] >= 0 && pos[a] < pos[b] {
					c := base.Compare(docs[a].vals[0].box(), docs[b].vals[0].box())
					if ordering[0].Direction == mapper.DESC {
						vAssert(c >= 0, "served-order")
					} else {
						vAssert(c <= 0, "served-order")
					}
				}
			}
		}
	}
	vObserve("n", len(got))
}

// VerifH_C07_Reach — vacuity twin: one int document matching _eq must not be found
func VerifH_C07_Reach() {
	def := client.CollectionDefinition{
		Version: client.CollectionVersion{Name: "T", VersionID: "sv1", CollectionID: iColID, IsActive: true,
			Fields: []client.CollectionFieldDescription{{Name: "f0"}}},
		Schema: client.SchemaDescription{Name: "T", VersionID: "sv1", Root: "sv1",
			Fields: []client.SchemaFieldDescription{{Name: "f0", Kind: client.FieldKind_NILLABLE_INT, Typ: client.LWW_REGISTER}}},
	}
	mapping := core.NewDocumentMapping()
	mapping.IndexesByName["f0"] = []int{0}
	idx := client.IndexDescription{Name: "idx", ID: 1, Fields: []client.IndexedFieldDescription{{Name: "f0"}}}
	txn := &iTxn{data: &vKV{}, system: &vKV{}}
	ctx := datastore.CtxSetTxn(context.Background(), txn)
	ctx = id.InitCollectionShortIDCache(ctx)
	ctx = id.InitFieldShortIDCache(ctx)
	if id.SetShortCollectionID(ctx, iColID) != nil {
		panic("short id")
	}
	x := vI64("x")
	key := keys.NewIndexDataStoreKey(1, 1, []keys.IndexedField{{Value: client.NewNormalInt(x)}, {Value: client.NewNormalString("bae-doc0")}})
	txn.data.put(key.Bytes(), []byte{})
	flt := &mapper.Filter{Conditions: map[connor.FilterKey]any{&mapper.PropertyIndex{Index: 0}: map[connor.FilterKey]any{&mapper.Operator{Operation: "_eq"}: x}}}
	f, err := newIndexFetcher(ctx, txn, nil, idx, flt, &vCol{def: def}, mapping, &ExecInfo{}, nil)
	if err != nil || f == nil {
		return
	}
	docID, _ := f.NextDoc()
	vCover("end")
	vAssert(!docID.HasValue(), "reach-twin")
}
