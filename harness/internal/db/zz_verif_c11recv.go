//go:build verif

package db

// C11.O2 — receiver side: mergeProcessor.processBlock on an encrypted field block merges the plaintext iff the
// key block is available, and stores nothing of it otherwise.

import (
	"bytes"
	"context"

	"github.com/ipfs/go-cid"
	ipldfmt "github.com/ipfs/go-ipld-format"
	"github.com/ipld/go-ipld-prime/datamodel"
	"github.com/ipld/go-ipld-prime/linking"
	cidlink "github.com/ipld/go-ipld-prime/linking/cid"

	"github.com/sourcenetwork/defradb/client"
	"github.com/sourcenetwork/defradb/internal/core"
	coreblock "github.com/sourcenetwork/defradb/internal/core/block"
	"github.com/sourcenetwork/defradb/internal/core/crdt"
	"github.com/sourcenetwork/defradb/internal/encryption"
)

// model cipher (symgo only): redirect targets of crypto.EncryptAES / DecryptAES
func rEncryptAES(plain, key, ad []byte, prependNonce bool) ([]byte, []byte, error) {
	out := []byte{0xEE, key[0]}
	for _, b := range plain {
		out = append(out, b^0xA5)
	}
	return out, nil, nil
}

func rDecryptAES(nonce, cipherText, key, ad []byte) ([]byte, error) {
	if len(cipherText) < 2 || cipherText[0] != 0xEE || cipherText[1] != key[0] {
		return nil, vErrInjected
	}
	out := make([]byte, 0, len(cipherText)-2)
	for _, b := range cipherText[2:] {
		out = append(out, b^0xA5)
	}
	return out, nil
}

var rEncCids []cid.Cid
var rEncBlocks []*coreblock.Encryption

type rEncNode struct {
	datamodel.Node
	enc *coreblock.Encryption
}

// redirect target of LinkSystem.Load for this harness: block table first, then the key-block table
func rLoad(lsys *linking.LinkSystem, lc linking.LinkContext, lnk datamodel.Link, np datamodel.NodePrototype) (datamodel.Node, error) {
	c := lnk.(cidlink.Link).Cid
	if i := vCurEnv.find(c); i >= 0 {
		return vNode{blk: vCurEnv.tabBlocks[i]}, nil
	}
	for i := range rEncCids {
		if rEncCids[i] == c {
			return rEncNode{enc: rEncBlocks[i]}, nil
		}
	}
	return nil, ipldfmt.ErrNotFound{Cid: c}
}

func rGetEncryptionBlockFromNode(nd datamodel.Node) (*coreblock.Encryption, error) {
	return nd.(rEncNode).enc, nil
}

// VerifH_C11_Receiver — conf: haskey (the receiver holds the key block)
func VerifH_C11_Receiver() {
	hasKey := vConfInt("haskey") != 0
	e := vNewEnv(vFieldLWW, true)
	rEncCids, rEncBlocks = nil, nil
	payload := []byte{vU8("p"), vU8("p")}
	key := bytes.Repeat([]byte{'K'}, 32)
	fname := vFieldName
	encBlock := &coreblock.Encryption{DocID: []byte(e.docID), FieldName: &fname, Key: key}
	// the sender's side: ciphertext in the field block, link to the key block
	_, encryptor := encryption.EnsureContextWithEncryptor(e.ctx)
	cipherText, err := encryptor.Encrypt(payload, key)
	vAssert(err == nil, "setup-encrypt")
	var encLink cidlink.Link
	if vSymbolic() {
		encLink = cidlink.Link{Cid: vFakeCid(90, 90)}
		if hasKey {
			rEncCids, rEncBlocks = append(rEncCids, encLink.Cid), append(rEncBlocks, encBlock)
		}
	} else {
		l, err := coreblock.GetLinkFromNode(encBlock.GenerateNode())
		if err != nil {
			panic("enc link")
		}
		encLink = l
		if hasKey {
			raw, err := encBlock.Marshal()
			if err != nil {
				panic("enc marshal")
			}
			if err := e.txn.enc.AsIPLDStorage().Put(e.ctx, encLink.Cid.KeyString(), raw); err != nil {
				panic("enc put")
			}
		}
	}
	field := coreblock.New(&crdt.LWWDelta{DocID: []byte(e.docID), FieldName: vFieldName, Priority: 1, SchemaVersionID: "sv1", Data: cipherText}, nil)
	field.Encryption = &encLink
	var fieldCid cid.Cid
	if vSymbolic() {
		fieldCid = vFakeCid(91, 91)
	} else {
		fieldCid = e.store(field)
	}
	e.tabCids, e.tabBlocks = append(e.tabCids, fieldCid), append(e.tabBlocks, field)
	comp := coreblock.New(&crdt.DocCompositeDelta{DocID: []byte(e.docID), Priority: 1, SchemaVersionID: "sv1", Status: client.Active},
		[]coreblock.DAGLink{coreblock.NewDAGLink(vFieldName, cidlink.Link{Cid: fieldCid})})
	var compCid cid.Cid
	if vSymbolic() {
		compCid = vFakeCid(92, 92)
	} else {
		compCid = e.store(comp)
	}
	e.tabCids, e.tabBlocks = append(e.tabCids, compCid), append(e.tabBlocks, comp)
	mp := e.newMergeProcessor()
	err = mp.processBlock(e.ctx, comp, cidlink.Link{Cid: compCid})
	vCover("processed")
	vAssert(err == nil, "process-no-error")
	val, has := e.rawValue(false)
	if hasKey {
		vAssert(has && bytes.Equal(val, payload), "with-key-reads-back-exactly-the-written-value")
		vAssert(len(mp.missingEncryptionBlocks) == 0, "nothing-missing")
	} else {
		vAssert(!has, "without-key-nothing-of-the-field-is-stored")
		vAssert(len(mp.missingEncryptionBlocks) == 1, "missing-key-is-requested")
		// nothing in the receiver's document store contains the plaintext
		for _, ent := range e.txn.data.ents {
			vAssert(!bytes.Equal(ent.v, payload), "no-plaintext-in-the-document-store")
		}
	}
	vAssert(e.exists(), "document-marker-written")
	_ = context.Background
	_ = core.COMPOSITE_NAMESPACE
	vObserve("has", has)
}
