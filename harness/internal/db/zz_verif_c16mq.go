//go:build verif

package db

// C16 — the merge queue that serialises incoming merges of one document (or of one branchable collection):
// real goroutines calling the real mergeQueue.add / done; the schedule is an input of the symbolic run.

// VerifH_C16_MergeQueue: conf threads (2..4). Every thread merges one document chosen by the solver among two;
// between add and done it is "merging". At no time are two threads merging the same document, every thread gets
// its turn (no goroutine sleeps forever), and the queue is empty afterwards.
func VerifH_C16_MergeQueue() {
	n := vConfInt("threads")
	q := newMergeQueue()
	keys := []string{"bae-doc-a", "bae-doc-b"}
	var merging [2]int
	var merged [2]int
	var fns []func()
	want := [2]int{}
	for i := 0; i < n; i++ {
		k := vChoose("doc", 2)
		if i == 0 {
			vAssume(k == 0) // the two documents are interchangeable
		}
		want[k]++
		fns = append(fns, func() {
			q.add(keys[k])
			merging[k]++
			vAssert(merging[k] == 1, "one-merge-per-document-at-a-time")
			vYield()
			vAssert(merging[k] == 1, "one-merge-per-document-at-a-time")
			merging[k]--
			merged[k]++
			q.done(keys[k])
		})
	}
	vRunThreads(fns...)
	vCover("all-threads-finished")
	vAssert(merged[0] == want[0] && merged[1] == want[1], "every-merge-ran-once")
	vAssert(len(q.keys) == 0, "queue-empty-afterwards")
	vObserve("merged", merged[0]+merged[1])
}
