//go:build verif

package db

// Stretch S1 — the real collection.save driven with a real client.Document over a create + update history:
//   C20: exactly one update notification per new document-level commit (plus one per collection-level commit
//        for branchable collections), registered as a success callback, carrying the id and bytes of a block
//        that is readable from the store;
//   C05: a storage fault anywhere in save makes it return an error (the caller then discards);
//   C04: the new commit's height and parents; C11-free (no encryption, signing disabled).
// updateIndexedDoc is skipped (isCreate = true is passed for the update step as well): collection without indexes.

import (
	"bytes"
	"context"
	"strconv"

	"github.com/ipfs/go-cid"

	"github.com/sourcenetwork/defradb/client"
	"github.com/sourcenetwork/defradb/event"
	coreblock "github.com/sourcenetwork/defradb/internal/core/block"
	"github.com/sourcenetwork/defradb/internal/db/id"
)

type sBus struct {
	event.Bus
	msgs []event.Message
}

func (b *sBus) Publish(m event.Message) { b.msgs = append(b.msgs, m) }

// redirect target of (client.FieldValue).Bytes inside symgo (canonical CBOR through reflection is outside reach):
// an injective encoding of string values; nil → the CBOR null
func vFieldValueBytes(val client.FieldValue) ([]byte, error) {
	switch v := val.Value().(type) {
	case string:
		// (what canonical CBOR produces for a text string shorter than 24 bytes)
		if len(v) >= 24 {
			panic("vFieldValueBytes: short strings only")
		}
		return append([]byte{0x60 + byte(len(v))}, []byte(v)...), nil
	case nil:
		return append([]byte{}, client.CborNil...), nil
	case int64:
		// (the engine's model encoding of a 64-bit integer — one header byte and the 64 bits — which its
		// cbor.Unmarshal model reads back; this function only runs inside the solver run)
		u := uint64(v)
		return []byte{0x1b, byte(u >> 56), byte(u >> 48), byte(u >> 40), byte(u >> 32), byte(u >> 24), byte(u >> 16), byte(u >> 8), byte(u)}, nil
	}
	panic("vFieldValueBytes: only string and small integer fields are modelled")
}

var sFields = []string{"f", "g"}

func sDefinition(branchable bool) client.CollectionDefinition {
	def := client.CollectionDefinition{
		Version: client.CollectionVersion{Name: "T", VersionID: "sv1", CollectionID: vColID, IsActive: true, IsBranchable: branchable},
		Schema:  client.SchemaDescription{Name: "T", VersionID: "sv1", Root: "sv1"},
	}
	for _, f := range sFields {
		def.Schema.Fields = append(def.Schema.Fields, client.SchemaFieldDescription{Name: f, Kind: client.FieldKind_NILLABLE_STRING, Typ: client.LWW_REGISTER})
		def.Version.Fields = append(def.Version.Fields, client.CollectionFieldDescription{Name: f})
	}
	return def
}

// redirect target of (*collection).updateIndexedDoc inside the solver run (collection without indexes)
func sUpdateIndexedDocNoIndexes(c *collection, ctx context.Context, doc *client.Document) error {
	if len(c.indexes) != 0 {
		panic("harness: collection with indexes")
	}
	return nil
}

// VerifH_S1_Save — conf: branchable (0/1), faults (0: none, else the fault window)
func VerifH_S1_Save() {
	branchable := vConfInt("branchable") != 0
	e := vNewEnv(vFieldLWW, false)
	e.def = sDefinition(branchable)
	for _, f := range sFields {
		if id.SetShortFieldID(e.ctx, 1, f) != nil {
			panic("short field id")
		}
	}
	bus := &sBus{}
	c := &collection{db: &DB{events: bus, signingDisabled: true}, def: e.def}
	docID, err := client.NewDocIDFromString(uDocIDs[0])
	if err != nil {
		panic("doc id")
	}
	doc, err := client.NewDocWithID(docID, e.def)
	if err != nil {
		panic("doc")
	}
	e.docID = uDocIDs[0]
	window := vConfInt("faults")
	var f *vFaults
	var lastHead cid.Cid
	for step := 0; step < 2; step++ {
		wrote := 0
		var written [2]bool
		for i, name := range sFields {
			if vChoose("writes", 2) == 1 {
				val := string([]byte{'a' + vU8("payload")%26})
				vBound(doc.Set(name, val) == nil, "set")
				written[i] = true
				wrote++
			}
		}
		if step == 0 && wrote == 0 {
			vAssume(false) // a create writes at least one field in this harness
		}
		before := len(e.txn.successFns)
		if window > 0 && step == 1 {
			f = &vFaults{window: window, max: 1}
			e.faults = f
			e.txn.data.faults, e.txn.head.faults, e.txn.system.faults = f, f, f
		}
		// (the second step is an update: save then also refreshes the secondary indexes, of which this collection has
		// none: inside the solver run updateIndexedDoc, which would read the old document back through the fetcher and
		// the value decoder and then loop over no index, is redirected to a no-op; natively it runs. The fault jobs of
		// C05 keep calling save as a create so that the store operations are the same in both runs.)
		err := c.save(e.ctx, doc, step == 0 || vConfInt("faults") != 0)
		e.faults = nil
		e.txn.data.faults, e.txn.head.faults, e.txn.system.faults = nil, nil, nil
		if f != nil {
			vCover("faulted")
			vAssert(vImplies(f.injected > 0, err != nil), "fault-propagates")
			vAssert(vImplies(f.injected == 0, err == nil), "no-fault-no-error")
			vBound(f.count <= f.window, "window-covers-all-store-operations")
			return
		}
		if vFor("C20") || vFor("C04") {
			vAssert(err == nil, "save-no-error")
		} else {
			vBound(err == nil, "fault-free-step-saves")
		}
		if err != nil {
			return
		}
		if !vFor("C20") && !vFor("C04") {
			// (run for C05: only the fault step asserts; the callbacks of the fault-free step still run)
			for _, fn := range e.txn.successFns[before:] {
				fn()
			}
			continue
		}
		// nothing is published before the transaction commits
		if vFor("C20") {
			vAssert(len(bus.msgs) == 0 || step == 1, "nothing-published-before-commit")
		}
		published := len(bus.msgs)
		fns := e.txn.successFns[before:]
		for _, fn := range fns {
			fn()
		}
		want := 1
		if branchable {
			want = 2
		}
		if vFor("C20") {
			vAssert(len(bus.msgs)-published == want, "exactly-one-notification-per-new-commit")
		}
		// the document-level notification
		heads := e.compHeads()
		if vFor("C04") {
			vAssert(len(heads) == 1, "single-head-after-local-write")
		}
		if len(bus.msgs)-published >= 1 && len(heads) == 1 {
			m := bus.msgs[published]
			up, ok := m.Data.(event.Update)
			if vFor("C20") {
				vAssert(m.Name == event.UpdateName, "update-event")
				vAssert(ok, "update-payload")
			}
			if ok {
				if vFor("C20") {
					vAssert(up.DocID == uDocIDs[0], "event-carries-the-document-id")
					vAssert(up.Cid == heads[0], "event-carries-the-new-head")
					vAssert(up.CollectionID == vColID, "event-carries-the-collection")
					has, herr := e.txn.bs.Has(e.ctx, up.Cid)
					vAssert(herr == nil && has, "event-block-is-readable-from-the-store")
					vAssert(len(up.Block) > 0, "event-carries-block-bytes")
				}
				vObserve("document-head-updated-on-commit", doc.Head() == up.Cid)
				// C04.O2
				var blk *coreblock.Block
				if vSymbolic() {
					if i := e.find(up.Cid); i >= 0 {
						blk = e.tabBlocks[i]
					}
				} else {
					blk, _ = coreblock.GetFromBytes(up.Block)
				}
				if vFor("C20") {
					vAssert(blk != nil, "event-bytes-decode")
				}
				if blk != nil && vFor("C04") {
					vAssert(blk.Delta.GetPriority() == uint64(step+1), "height-is-one-more-than-parent")
					vAssert(len(blk.Links) == wrote, "one-field-link-per-written-field")
					if step == 1 {
						vAssert(len(blk.Heads) == 1 && blk.Heads[0].Cid == lastHead, "parent-is-the-previous-head")
					}
				}
				lastHead = up.Cid
			}
		}
		if branchable && len(bus.msgs)-published == 2 {
			up, ok := bus.msgs[published+1].Data.(event.Update)
			if vFor("C20") {
				vAssert(ok && up.DocID == "" && up.CollectionID == vColID, "collection-level-notification")
			}
		}
		// the document is clean after commit, the written values are readable
		for i, name := range sFields {
			fv, gerr := doc.GetValue(name)
			if written[i] {
				// (no property among those checked here states these two; they are compared between the solver run and
				// the native run as observations)
				vObserve("document-clean-after-commit", gerr == nil && !fv.IsDirty())
				want, _ := fv.Bytes()
				sid, _ := id.GetShortFieldID(e.ctx, 1, name)
				got, ok := e.txn.data.peek(e.fieldKey().WithFieldID(strconv.Itoa(int(sid))).WithValueFlag().Bytes())
				vObserve("written-value-stored", ok && bytes.Equal(got, want))
			}
		}
	}
	vCover("saved")
	vObserve("events", len(bus.msgs))
}
