//go:build verif

package db

// C10.O5 — write attempts by a requester who lacks the permission change nothing: the real collection.Create / Update /
// Delete (real client.Document, real transactions over the transactional store model) with document access control on.
// The owner creates a private document; another requester (identified without any relationship, or anonymous) then tries
// to update it, delete it, or create a document with the same content (hence the same id).

import (
	"context"
	"errors"

	"github.com/sourcenetwork/immutable"

	"github.com/sourcenetwork/defradb/acp/dac"
	acpIdentity "github.com/sourcenetwork/defradb/acp/identity"
	acpTypes "github.com/sourcenetwork/defradb/acp/types"
	"github.com/sourcenetwork/defradb/client"
	"github.com/sourcenetwork/defradb/internal/db/id"
)

type wIdentity struct {
	acpIdentity.Identity
	did string
}

func (i wIdentity) DID() string { return i.did }

var wErrRegistered = errors.New("verif acp: object already registered")

// the ACP system as a table: a registered document is accessible to its owner only (no relationships are granted)
type wACP struct {
	dac.DocumentACP
	owner map[string]string
}

func (a *wACP) RegisterDocObject(ctx context.Context, ident acpIdentity.Identity, policyID, resourceName, docID string) error {
	if _, ok := a.owner[docID]; ok {
		return wErrRegistered
	}
	a.owner[docID] = ident.DID()
	return nil
}

func (a *wACP) IsDocRegistered(ctx context.Context, policyID, resourceName, docID string) (bool, error) {
	_, ok := a.owner[docID]
	return ok, nil
}

func (a *wACP) CheckDocAccess(ctx context.Context, perm acpTypes.DocumentResourcePermission, actorID, policyID, resourceName, docID string) (bool, error) {
	o, ok := a.owner[docID]
	return ok && o == actorID && actorID != "", nil
}

// VerifH_C10_WriteDenied — conf: branchable (0/1)
func VerifH_C10_WriteDenied() {
	e := vNewEnv(vFieldLWW, false)
	_ = e
	st := vNewStore()
	bus := &sBus{}
	acp := &wACP{owner: map[string]string{}}
	var dacp dac.DocumentACP = acp
	d := &DB{rootstore: st, events: bus, signingDisabled: true, documentACP: immutable.Some(dacp)}
	def := sDefinition(vConfInt("branchable") != 0)
	def.Version.Policy = immutable.Some(client.PolicyDescription{ID: "pol1", ResourceName: "T"})
	c := &collection{db: d, def: def}
	bg := context.Background()

	setupC, err := d.NewTxn(bg, false)
	vBound(err == nil, "setup txn")
	setup := setupC.(*Txn)
	sctx := InitContext(bg, setup)
	vBound(id.SetShortCollectionID(sctx, vColID) == nil, "short collection id")
	for _, f := range sFields {
		vBound(id.SetShortFieldID(sctx, 1, f) == nil, "short field id")
	}
	vBound(setup.Commit(sctx) == nil, "setup commit")

	var owner, other acpIdentity.Identity = wIdentity{did: "did:key:owner"}, wIdentity{did: "did:key:other"}
	ownerCtx := acpIdentity.WithContext(bg, immutable.Some(owner))
	val := string([]byte{'a' + vU8("payload")%26})
	mkDoc := func() *client.Document {
		var doc *client.Document
		var derr error
		if vSymbolic() {
			docID, perr := client.NewDocIDFromString(uDocIDs[0])
			vBound(perr == nil, "doc id")
			doc, derr = client.NewDocWithID(docID, def)
			vBound(derr == nil, "doc")
			vBound(doc.Set(sFields[0], val) == nil, "set")
		} else {
			doc, derr = client.NewDocFromMap(map[string]any{sFields[0]: val}, def)
			vBound(derr == nil, "doc")
		}
		return doc
	}
	doc := mkDoc()
	vBound(c.Create(ownerCtx, doc) == nil, "the owner creates the document")
	if vBool("owner-updates") {
		vBound(doc.Set(sFields[1], val) == nil, "set")
		vBound(c.Update(ownerCtx, doc) == nil, "the owner updates the document")
	}
	before := sStoreSnapshot(st)
	events := len(bus.msgs)

	reqCtx := bg
	if vBool("requester-is-identified") {
		reqCtx = acpIdentity.WithContext(bg, immutable.Some(other))
	}
	var opErr error
	switch vChoose("attempt", 3) {
	case 0:
		// update: a copy of the document with another value
		upd := mkDoc()
		vBound(upd.Set(sFields[1], "z") == nil, "set")
		opErr = c.Update(reqCtx, upd)
	case 1:
		var ok bool
		ok, opErr = c.Delete(reqCtx, doc.ID())
		vAssert(!ok || opErr != nil, "write-without-permission-is-refused")
	default:
		// create with the same content: the same document id
		opErr = c.Create(reqCtx, mkDoc())
	}
	vCover("attempted")
	vAssert(opErr != nil, "write-without-permission-is-refused")
	after := sStoreSnapshot(st)
	same := len(before) == len(after)
	for i := 0; same && i < len(before); i++ {
		same = before[i] == after[i]
	}
	vAssert(same, "write-without-permission-changes-nothing")
	vAssert(len(bus.msgs) == events, "write-without-permission-publishes-nothing")
	vAssert(acp.owner[doc.ID().String()] == "did:key:owner", "document-stays-registered-to-its-owner")
	// the owner still reads and updates it
	ok, eerr := c.Exists(ownerCtx, doc.ID())
	vAssert(eerr == nil && ok, "owner-keeps-access")
	vObserve("refused", opErr != nil)
}
