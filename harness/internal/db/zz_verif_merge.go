//go:build verif

package db

// C02.O1–O3, C01.O4, C04.O3, C19: the real merge walk (getHeadsAsMergeTarget → loadComposites →
// mergeComposites → processBlock → ProcessBlock/updateHeads → CRDT merges) over a symbolic commit DAG,
// symbolic hash order, symbolic delivery sequence (with redelivery), checked after every delivery against
// the reference function of the set of merged commits.

import (
	"github.com/ipfs/go-cid"
	"bytes"

	"github.com/sourcenetwork/defradb/client"
	coreblock "github.com/sourcenetwork/defradb/internal/core/block"
)

func (e *vEnv) indexOfBlock(b *coreblock.Block) int {
	if vSymbolic() {
		for i := range e.commits {
			if e.commits[i].comp == b {
				return i
			}
		}
		return -1
	}
	lnk, err := b.GenerateLink()
	if err != nil {
		return -1
	}
	return e.indexOfComp(lnk.Cid)
}

// unequalHeads: the class of known finding C02-unequal-head-heights — the receiver's head set has members
// of different heights at the moment of a delivery
func (e *vEnv) unequalHeads(merged []bool) bool {
	var hs []uint64
	for i := range e.commits {
		if !merged[i] {
			continue
		}
		maximal := true
		for j := range e.commits {
			if j != i && merged[j] && e.isAncestor(i, j) {
				maximal = false
			}
		}
		if maximal {
			hs = append(hs, e.commits[i].height)
		}
	}
	for _, h := range hs {
		if h != hs[0] {
			return true
		}
	}
	return false
}

// reference state of a replica that has merged exactly the commits in `merged`
func (e *vEnv) checkState(merged []bool) {
	n := len(e.commits)
	any, deleted := false, false
	for i := 0; i < n; i++ {
		if merged[i] {
			any = true
			if e.commits[i].del {
				deleted = true
			}
		}
	}
	// C04.O3: the reported heads are exactly the merged commits no other merged commit names as ancestor
	var heads []cid.Cid
	if vFor("C04") {
		heads = e.compHeads()
	}
	isHead := make([]bool, n)
	for _, h := range heads {
		i := e.indexOfComp(h)
		vAssert(i >= 0, "head-is-a-known-commit")
		if i >= 0 {
			vAssert(!isHead[i], "head-listed-once")
			isHead[i] = true
		}
	}
	for i := 0; i < n; i++ {
		maximal := merged[i]
		for j := 0; j < n && maximal; j++ {
			if j != i && merged[j] && e.isAncestor(i, j) {
				maximal = false
			}
		}
		if vFor("C04") {
			vAssert(isHead[i] == maximal, "heads-are-the-frontier")
		}
	}
	// ... and so are the heads of the field (every non-delete commit writes the field)
	if e.hasField && vFor("C04") {
		fIsHead := make([]bool, n)
		for _, h := range e.fieldHeadCids() {
			i := e.indexOfField(h)
			vAssert(i >= 0, "field-head-is-a-known-commit")
			if i >= 0 {
				vAssert(!fIsHead[i], "field-head-listed-once")
				fIsHead[i] = true
			}
		}
		for i := 0; i < n; i++ {
			maximal := merged[i] && e.commits[i].writes()
			for j := 0; j < n && maximal; j++ {
				if j != i && merged[j] && e.commits[j].writes() && e.isAncestor(i, j) {
					maximal = false
				}
			}
			vAssert(fIsHead[i] == maximal, "field-heads-are-the-frontier")
		}
	}
	if !any || !(vFor("C01") || vFor("C02") || vFor("C19")) {
		return
	}
	vAssert(e.exists(), "document-exists")
	vAssert(e.isDeleted() == deleted, "deleted-iff-a-delete-was-merged")
	if !e.hasField {
		// C19: nothing is written for a field the receiver's schema version does not know
		_, a := e.rawValue(false)
		_, b := e.rawValue(true)
		vAssert(!a && !b, "unknown-field-ignored")
		return
	}
	if e.fieldKind == vFieldCounter {
		sum, has := int64(0), false
		for i := 0; i < n; i++ {
			if merged[i] && e.commits[i].writes() {
				sum += e.commits[i].inc
				has = true
			}
		}
		v, ok := e.counterValue(deleted)
		if has {
			vAssert(ok, "counter-present")
			vAssert(v == sum, "counter-is-sum-of-merged-increments-each-once")
		}
		_, other := e.rawValue(!deleted)
		vAssert(!other, "no-value-under-the-other-prefix")
		vObserve("counter", v)
		return
	}
	// register: a causally latest write among the merged commits = maximum of (field height, payload)
	best := -1
	var bestH uint64
	for i := 0; i < n; i++ {
		if !merged[i] || !e.commits[i].writes() {
			continue
		}
		h := e.fieldHeight(i)
		if best < 0 || h > bestH || (h == bestH && bytes.Compare(e.commits[i].payload, e.commits[best].payload) > 0) {
			best, bestH = i, h
		}
	}
	if best >= 0 {
		val, ok := e.rawValue(deleted)
		if bytes.Equal(e.commits[best].payload, client.CborNil) {
			vAssert(!ok, "null-winner-clears-value")
		} else {
			vAssert(ok && bytes.Equal(val, e.commits[best].payload), "register-holds-a-causally-latest-write")
		}
		vObserve("register", val)
	}
}

// VerifH_C02_Deliver — conf: n (commits), kind (0 register, 1 counter), del (index of a delete commit or -1),
// deliveries, hasfield (C19: 0 = the receiver's definition lacks the field), class (0: exclude deliveries
// that meet a head set of unequal heights; 1: require one; 2: unrestricted)
func VerifH_C02_Deliver() {
	n, kind, del := vConfInt("n"), vConfInt("kind"), vConfInt("del")
	e := vNewEnv(kind, vConfInt("hasfield") != 0)
	e.vDAG(n, del)
	e.build()
	merged := make([]bool, n)
	// "the merge does not fail" belongs to C01, C02 and C19
	noErr := vFor("C01") || vFor("C02") || vFor("C19")
	class := vConfInt("class")
	sawUnequal := false
	for d := 0; d < vConfInt("deliveries"); d++ {
		x := vChoose("deliver", n)
		if e.unequalHeads(merged) {
			sawUnequal = true
			if class == 0 {
				vAssume(false)
			}
		}
		anc := make([]bool, n)
		e.ancestors(x, anc)
		// the walk (C02.O1)
		mt, err := getHeadsAsMergeTarget(e.ctx, e.headKey())
		if noErr {
			vAssert(err == nil, "heads-readable")
		}
		if err != nil {
			return
		}
		mp := e.newMergeProcessor()
		err = mp.loadComposites(e.ctx, e.commits[x].compCid, mt)
		if noErr {
			vAssert(err == nil, "walk-no-error")
		}
		if err != nil {
			return
		}
		count := make([]int, n)
		for el := mp.composites.Front(); el != nil; el = el.Next() {
			i := e.indexOfBlock(el.Value.(*coreblock.Block))
			vAssert(i >= 0, "walk-yields-known-commits")
			if i < 0 {
				return
			}
			count[i]++
		}
		// (how often a block sits in the queue is the processor's own business: a queue may hold a block twice and
		// skip the second visit when applying. "Each unmerged ancestor exactly once, nothing else" is asserted on the
		// effect below: the counter is the sum of the merged increments, each once. The multiplicities are kept as
		// an observation compared between the solver run and the native run.)
		dup := 0
		for i := 0; i < n; i++ {
			if count[i] > 1 {
				dup++
			}
		}
		vObserve("blocks-queued-more-than-once", dup)
		// the merge (C02.O2/O3, C01.O4)
		err = mp.mergeComposites(e.ctx)
		if noErr {
			vAssert(err == nil, "merge-no-error")
		}
		if err != nil {
			return
		}
		// the order in which the queued commits were applied: parents before children
		pos := 0
		posOf := make([]int, n)
		for el := mp.composites.Front(); el != nil; el = el.Next() {
			if i := e.indexOfBlock(el.Value.(*coreblock.Block)); i >= 0 {
				pos++
				posOf[i] = pos
			}
		}
		for i := 0; i < n; i++ {
			for _, p := range e.commits[i].parents {
				if posOf[i] > 0 && posOf[p] > 0 && vFor("C02") {
					vAssert(posOf[p] < posOf[i], "applied-parents-before-children")
				}
			}
		}
		for i := 0; i < n; i++ {
			if anc[i] {
				merged[i] = true
			}
		}
		e.checkState(merged)
	}
	if class == 1 {
		vAssume(sawUnequal)
	}
	vCover("delivered")
}

// VerifH_C02_Reach — vacuity twin: two concurrent increments delivered, counter must not equal their sum
func VerifH_C02_Reach() {
	e := vNewEnv(vFieldCounter, true)
	e.vDAG(2, -1)
	e.build()
	_, err := e.deliver(1)
	v, _ := e.counterValue(false)
	vCover("end")
	vAssert(err != nil || v != e.commits[0].inc+e.commits[1].inc, "reach-twin")
}

// VerifH_C05_MergeFaults — C05.O1 for the merge of a remote commit: any failing store or block-load operation
// while the real walk + merge of a two-commit history runs makes the delivery report an error; without a
// fault it succeeds. conf: kind, window
func VerifH_C05_MergeFaults() {
	e := vNewEnv(vConfInt("kind"), true)
	e.vDAG(2, -1)
	e.build()
	// the receiver has merged the genesis commit; the update arrives
	_, err := e.deliver(0)
	vAssert(err == nil, "setup-deliver-genesis")
	f := &vFaults{window: vConfInt("window"), max: 2}
	e.faults = f
	e.txn.data.faults, e.txn.head.faults, e.txn.system.faults = f, f, f
	_, err = e.deliver(1)
	e.faults = nil
	e.txn.data.faults, e.txn.head.faults, e.txn.system.faults = nil, nil, nil
	vCover("ran")
	vAssert(vImplies(f.injected > 0, err != nil), "fault-propagates")
	vAssert(vImplies(f.injected == 0, err == nil), "no-fault-no-error")
	vBound(f.count <= f.window, "window-covers-all-store-operations")
	vObserve("ops", f.count)
}
