//go:build verif

package db

// C07.O5 — index maintenance: after any sequence of Save / Update / Delete through the real collectionSimpleIndex
// and collectionUniqueIndex (getDocFieldValues, getDocumentsIndexKey, generateKeysAndProcess, deleteIndexKey,
// addNewUniqueKey, isUpdatingIndexedFields) on real client.Documents, the entries of the index in the store are
// exactly the entries of the current values of the live documents, in the shape the read-side harness of C07 is
// run on (key = indexed values in index direction (+ document id), built with the real key encoder). A stale or
// missing entry is what makes an index-backed request differ from a scan.

import (
	"bytes"
	"context"

	"github.com/sourcenetwork/defradb/client"
	"github.com/sourcenetwork/defradb/internal/datastore"
	"github.com/sourcenetwork/defradb/internal/keys"
)

func mSchema(nf int) client.CollectionDefinition {
	def := client.CollectionDefinition{
		Version: client.CollectionVersion{Name: "T", VersionID: "sv1", CollectionID: vColID, IsActive: true},
		Schema:  client.SchemaDescription{Name: "T", VersionID: "sv1", Root: "sv1"},
	}
	for f := 0; f < nf; f++ {
		name := "f" + string(rune('0'+f))
		def.Schema.Fields = append(def.Schema.Fields, client.SchemaFieldDescription{Name: name, Kind: client.FieldKind_NILLABLE_INT, Typ: client.LWW_REGISTER})
		def.Version.Fields = append(def.Version.Fields, client.CollectionFieldDescription{Name: name})
	}
	return def
}

func mDoc(def client.CollectionDefinition, d int, vals []uVal) *client.Document {
	id, err := client.NewDocIDFromString(uDocIDs[d])
	if err != nil {
		panic("doc id")
	}
	doc, err := client.NewDocWithID(id, def)
	if err != nil {
		panic("new doc")
	}
	for f, v := range vals {
		name := "f" + string(rune('0'+f))
		if v.null {
			vBound(doc.Set(name, nil) == nil, "set-null")
		} else {
			vBound(doc.Set(name, v.i) == nil, "set")
		}
	}
	return doc
}

// values range over null and 0..3: the subject is which entries are written and removed, not the value encoding
// (C17 covers that at full width; a full-width value multiplies the paths by the encoder's length classes)
func mVals(tag string, nf int) []uVal {
	var out []uVal
	for f := 0; f < nf; f++ {
		name := tag + "f" + string(rune('0'+f))
		if vChoose(name+".null", 2) == 1 {
			out = append(out, uVal{null: true})
		} else {
			out = append(out, uVal{i: int64(vU8(name) & 3)})
		}
	}
	return out
}

// the same non-null tuple?
func mSameNonNull(a, b []uVal) bool {
	same := true
	for f := range a {
		if a[f].null || b[f].null {
			return false
		}
		same = vAnd(same, a[f].i == b[f].i)
	}
	return same
}

// VerifH_C07_Maintenance — conf: unique (0/1), fields (1/2), ops (length of the history)
func VerifH_C07_Maintenance() {
	nf := vConfInt("fields")
	unique := vConfInt("unique") != 0
	e := vNewEnv(vFieldCounter, true)
	def := mSchema(nf)
	col := &collection{db: &DB{}, def: def}
	desc := client.IndexDescription{Name: "idx", ID: 1, Unique: unique}
	for f := 0; f < nf; f++ {
		desc.Fields = append(desc.Fields, client.IndexedFieldDescription{Name: "f" + string(rune('0'+f)), Descending: vChoose("desc", 2) == 1})
	}
	index, err := NewCollectionIndex(col, desc)
	vBound(err == nil, "index-created")
	if err != nil {
		return
	}
	var live [2]bool
	var cur [2][]uVal
	var docs [2]*client.Document
	prefixKey := keys.IndexDataStoreKey{CollectionShortID: 1, IndexID: 1}
	prefix := prefixKey.Bytes()
	check := func() {
		want := 0
		for d := 0; d < 2; d++ {
			if !live[d] {
				continue
			}
			want++
			var fields []keys.IndexedField
			hasNil := false
			for f := 0; f < nf; f++ {
				fields = append(fields, keys.IndexedField{Value: cur[d][f].normal(), Descending: desc.Fields[f].Descending})
				hasNil = hasNil || cur[d][f].null
			}
			withID := !unique || hasNil
			if withID {
				fields = append(fields, keys.IndexedField{Value: client.NewNormalString(uDocIDs[d])})
			}
			wantKey := keys.NewIndexDataStoreKey(1, 1, fields)
			got, ok := e.txn.data.peek(wantKey.Bytes())
			vAssert(ok, "entry-of-the-current-value-present")
			if ok {
				if withID {
					vAssert(len(got) == 0, "entry-value")
				} else {
					vAssert(bytes.Equal(got, []byte(uDocIDs[d])), "entry-value")
				}
			}
		}
		have := 0
		for _, ent := range e.txn.data.ents {
			if bytes.HasPrefix(ent.k, prefix) {
				have++
			}
		}
		vAssert(have == want, "no-stale-entry")
	}
	for k := 0; k < vConfInt("ops"); k++ {
		d := vChoose("doc", 2)
		other := 1 - d
		switch {
		case !live[d]:
			vals := mVals("s"+string(rune('0'+k)), nf)
			doc := mDoc(def, d, vals)
			err := index.Save(e.ctx, doc)
			conflict := unique && live[other] && mSameNonNull(vals, cur[other])
			vAssert((err != nil) == conflict, "save-rejected-iff-unique-conflict")
			if err != nil {
				return
			}
			live[d], cur[d], docs[d] = true, vals, doc
		case vChoose("update-or-delete", 2) == 0:
			vals := mVals("u"+string(rune('0'+k)), nf)
			doc := mDoc(def, d, vals)
			err := index.Update(e.ctx, docs[d], doc)
			conflict := unique && live[other] && mSameNonNull(vals, cur[other])
			vAssert((err != nil) == conflict, "update-rejected-iff-unique-conflict")
			if err != nil {
				return
			}
			cur[d], docs[d] = vals, doc
		default:
			err := index.Delete(e.ctx, docs[d])
			vAssert(err == nil, "delete-no-error")
			if err != nil {
				return
			}
			live[d] = false
		}
		check()
	}
	vCover("maintained")
}

// VerifH_C05_IndexFaults — C05.O1 for index maintenance: a store operation that fails inside Save / Update / Delete of
// an index makes the call return an error (a swallowed error would let the surrounding mutation commit a stale or
// missing index entry). conf: unique (0/1), op (0 save, 1 update, 2 delete), window
func VerifH_C05_IndexFaults() {
	unique := vConfInt("unique") != 0
	e := vNewEnv(vFieldCounter, true)
	def := mSchema(1)
	col := &collection{db: &DB{}, def: def}
	desc := client.IndexDescription{Name: "idx", ID: 1, Unique: unique, Fields: []client.IndexedFieldDescription{{Name: "f0"}}}
	index, err := NewCollectionIndex(col, desc)
	vBound(err == nil, "index-created")
	if err != nil {
		return
	}
	// another live document, so that the unique check has something to look at
	other := mDoc(def, 1, []uVal{{i: 1}})
	vBound(index.Save(e.ctx, other) == nil, "setup-other")
	old := mDoc(def, 0, []uVal{{i: 2}})
	op := vConfInt("op")
	if op != 0 {
		vBound(index.Save(e.ctx, old) == nil, "setup-old")
	}
	f := &vFaults{window: vConfInt("window"), max: 1}
	e.txn.data.faults = f
	switch op {
	case 0:
		err = index.Save(e.ctx, old)
	case 1:
		err = index.Update(e.ctx, old, mDoc(def, 0, mVals("n", 1)))
	default:
		err = index.Delete(e.ctx, old)
	}
	e.txn.data.faults = nil
	vCover("ran")
	vBound(f.count <= f.window, "window-covers-all-store-operations")
	if f.injected > 0 {
		vAssert(err != nil, "fault-propagates")
	}
}

// ---- index maintenance after merged remote commits ----

// patched call sites in syncIndexedDoc (props/C07.py SYNC_PATCHES): the two reads of the document — before the merge
// (committed state) and after it (inside the merge transaction) — are answered by the harness
var verifSyncGet func(col *collection, ctx context.Context, docID client.DocID, showDeleted bool) (*client.Document, error)

// VerifH_C07_SyncAfterMerge — the real syncIndexedDoc (with indexNewDoc / deleteIndexedDoc / updateDocIndex and the real
// index kinds) for a document that before the merge was absent (or deleted) or present, and after the merge is absent
// (deleted) or present with any value: it never fails or panics, and afterwards the index holds exactly the entry of
// the document's current value if it is live. conf: unique (0/1)
func VerifH_C07_SyncAfterMerge() {
	unique := vConfInt("unique") != 0
	e := vNewEnv(vFieldCounter, true)
	def := mSchema(1)
	col := &collection{db: &DB{}, def: def}
	desc := client.IndexDescription{Name: "idx", ID: 1, Unique: unique, Fields: []client.IndexedFieldDescription{{Name: "f0", Descending: vChoose("desc", 2) == 1}}}
	index, err := NewCollectionIndex(col, desc)
	vBound(err == nil, "index-created")
	if err != nil {
		return
	}
	col.indexes = []CollectionIndex{index}
	hadBefore, hasAfter := vBool("present-before-the-merge"), vBool("live-after-the-merge")
	var oldDoc, newDoc *client.Document
	var newVals []uVal
	if hadBefore {
		oldDoc = mDoc(def, 0, mVals("old", 1))
		vBound(index.Save(e.ctx, oldDoc) == nil, "setup-old-entry")
	}
	if hasAfter {
		newVals = mVals("new", 1)
		newDoc = mDoc(def, 0, newVals)
	}
	verifSyncGet = func(c *collection, ctx context.Context, docID client.DocID, showDeleted bool) (*client.Document, error) {
		_, inTxn := datastore.CtxTryGetTxn(ctx)
		d := oldDoc
		if inTxn {
			d = newDoc
		}
		if d == nil {
			return nil, client.ErrDocumentNotFoundOrNotAuthorized
		}
		return d, nil
	}
	docID, derr := client.NewDocIDFromString(uDocIDs[0])
	if derr != nil {
		panic("doc id")
	}
	err = syncIndexedDoc(e.ctx, docID, col)
	verifSyncGet = nil
	vCover("synced")
	vAssert(err == nil, "index-sync-after-a-merge-does-not-fail")
	if err != nil {
		return
	}
	prefixKey := keys.IndexDataStoreKey{CollectionShortID: 1, IndexID: 1}
	prefix := prefixKey.Bytes()
	have := 0
	for _, ent := range e.txn.data.ents {
		if bytes.HasPrefix(ent.k, prefix) {
			have++
		}
	}
	if !hasAfter {
		vAssert(have == 0, "no-entry-for-a-document-that-is-not-live")
		return
	}
	fields := []keys.IndexedField{{Value: newVals[0].normal(), Descending: desc.Fields[0].Descending}}
	if !unique || newVals[0].null {
		fields = append(fields, keys.IndexedField{Value: client.NewNormalString(uDocIDs[0])})
	}
	wantKey := keys.NewIndexDataStoreKey(1, 1, fields)
	_, ok := e.txn.data.peek(wantKey.Bytes())
	vAssert(ok && have == 1, "exactly-the-entry-of-the-current-value")
}
