//go:build verif

package db

// C14 — node access control survives a restart: after any short history of DisableNAC / ReEnableNAC calls, a node
// reopened on the same store (a new DB value whose state is rebuilt by the real initializeNodeACP from what was
// persisted) reports the status and policy that the never-restarted node holds.

import (
	"context"

	"github.com/sourcenetwork/immutable"

	acpIdentity "github.com/sourcenetwork/defradb/acp/identity"
	"github.com/sourcenetwork/defradb/client"
)

// VerifH_C14_NACRestart — conf: calls (number of toggles before the restart)
func VerifH_C14_NACRestart() {
	st := vNewStore()
	var node acpIdentity.Identity = wIdentity{did: "did:key:node"}
	ctx := acpIdentity.WithContext(context.Background(), immutable.Some(node))
	d1 := &DB{rootstore: st, nodeIdentity: immutable.Some(node)}
	d1.nodeACP.NodeACPDesc = NodeACPDesc{Status: client.NACEnabled, Policy: immutable.Some(client.PolicyDescription{ID: "pol", ResourceName: "node"})}
	vBound(d1.saveNodeACPDesc(ctx) == nil, "the configured state is persisted (as tryRegisterNACPolicy leaves it)")
	for i := 0; i < vConfInt("calls"); i++ {
		// (a call that is not allowed in the current state — disabling what is disabled — returns an error and changes nothing)
		if vChoose("call", 2) == 0 {
			_ = d1.DisableNAC(ctx)
		} else {
			_ = d1.ReEnableNAC(ctx)
		}
	}
	// restart
	d2 := &DB{rootstore: st, nodeIdentity: immutable.Some(node)}
	d2.nodeACP.NodeACPDesc = NewNodeACPDesc()
	d2.nodeACP.EnabledInConfig = vBool("enabled-in-start-command")
	txnC, err := d2.NewTxn(ctx, true)
	vBound(err == nil, "txn")
	txn := txnC.(*Txn)
	ierr := d2.initializeNodeACP(ctx, txn)
	txn.Discard(ctx)
	vCover("restarted")
	vAssert(ierr == nil, "restart-no-error")
	vAssert(d2.nodeACP.NodeACPDesc.Status == d1.nodeACP.NodeACPDesc.Status, "restarted-node-has-the-status-of-its-twin")
	p1, p2 := d1.nodeACP.NodeACPDesc.Policy, d2.nodeACP.NodeACPDesc.Policy
	vAssert(p1.HasValue() == p2.HasValue() && (!p1.HasValue() || p1.Value() == p2.Value()), "restarted-node-has-the-policy-of-its-twin")
	s1, e1 := d1.GetNACStatus(ctx)
	s2, e2 := d2.GetNACStatus(ctx)
	vAssert(e1 == nil && e2 == nil && s1.Status == s2.Status, "restarted-node-reports-the-status-of-its-twin")
	vObserve("status", int(d2.nodeACP.NodeACPDesc.Status))
}
