//go:build verif

package db

// C20.O4 / C05 / C06 — the collection API inside an explicit transaction: Create, Update and Delete of one document
// (the real collection.Create / Update / Delete with a real client.Document, a real db.NewTxn over the transactional
// store model), then the caller commits or discards.
//   C20: nothing is published before the caller's commit; a discarded transaction publishes nothing; a committed one
//        publishes exactly one update notification per document-level commit (plus one per collection-level commit when
//        branchable), in the order the operations completed, each carrying the document id and a readable block.
//   C06/C05: a discarded transaction leaves the store as it was.

import (
	"context"

	"github.com/sourcenetwork/defradb/client"
	"github.com/sourcenetwork/defradb/event"
	"github.com/sourcenetwork/defradb/internal/datastore"
	"github.com/sourcenetwork/defradb/internal/db/id"
)

// redirect target of (*client.Document).GenerateDocID inside the solver run (canonical CBOR + SHA-256 + UUIDv5 are outside
// reach): the document keeps the id it was built with
func sKeepDocID(doc *client.Document) (client.DocID, error) { return doc.ID(), nil }

// redirect targets of (*datastore.Multistore).Blockstore / Encstore inside the solver run: commit blocks live in the block
// table of the environment (putBlock is redirected there), not under the transaction
func sBlockstore(m *datastore.Multistore) datastore.Blockstore { return vCurEnv.txn.bs }
func sEncstore(m *datastore.Multistore) datastore.Blockstore   { return vCurEnv.txn.enc }

func sStoreSnapshot(st *vStore) []byte {
	var out []byte
	for _, e := range st.kv.ents {
		out = append(out, byte(len(e.k)))
		out = append(out, e.k...)
		out = append(out, byte(len(e.v)))
		out = append(out, e.v...)
	}
	return out
}

// VerifH_C20_ApiInTxn — conf: branchable (0/1)
func VerifH_C20_ApiInTxn() {
	branchable := vConfInt("branchable") != 0
	e := vNewEnv(vFieldLWW, false) // the block table the redirected putBlock files blocks in
	_ = e
	st := vNewStore()
	bus := &sBus{}
	d := &DB{rootstore: st, events: bus, signingDisabled: true}
	def := sDefinition(branchable)
	c := &collection{db: d, def: def}
	bg := context.Background()

	setupC, err := d.NewTxn(bg, false)
	vBound(err == nil, "setup txn")
	setup := setupC.(*Txn)
	sctx := InitContext(bg, setup)
	vBound(id.SetShortCollectionID(sctx, vColID) == nil, "short collection id")
	for _, f := range sFields {
		vBound(id.SetShortFieldID(sctx, 1, f) == nil, "short field id")
	}
	vBound(setup.Commit(sctx) == nil, "setup commit")
	before := sStoreSnapshot(st)

	TC, err := d.NewTxn(bg, false)
	vBound(err == nil, "txn")
	T := TC.(*Txn)
	ctx := InitContext(bg, T)

	val := string([]byte{'a' + vU8("payload")%26})
	var doc *client.Document
	if vSymbolic() {
		docID, perr := client.NewDocIDFromString(uDocIDs[0])
		vBound(perr == nil, "doc id")
		doc, err = client.NewDocWithID(docID, def)
		vBound(err == nil, "doc")
		vBound(doc.Set(sFields[0], val) == nil, "set")
	} else {
		doc, err = client.NewDocFromMap(map[string]any{sFields[0]: val}, def)
		vBound(err == nil, "doc")
	}
	commits := 0
	vBound(c.Create(ctx, doc) == nil, "create inside a transaction returns no error")
	commits++
	if vFor("C20") {
		vAssert(len(bus.msgs) == 0, "nothing-published-before-commit")
	}
	if vBool("then-update") {
		vBound(doc.Set(sFields[1], val) == nil, "set")
		vBound(c.Update(ctx, doc) == nil, "update inside a transaction returns no error")
		commits++
		if vFor("C20") {
			vAssert(len(bus.msgs) == 0, "nothing-published-before-commit")
		}
	}
	if vBool("then-delete") {
		ok, derr := c.Delete(ctx, doc.ID())
		vBound(derr == nil && ok, "delete inside a transaction returns no error")
		commits++
		if vFor("C20") {
			vAssert(len(bus.msgs) == 0, "nothing-published-before-commit")
		}
	}
	vCover("operated")
	if vBool("caller-commits") {
		vBound(T.Commit(ctx) == nil, "the caller's commit succeeds")
		if !vFor("C20") {
			vCover("committed")
			return
		}
		per := 1
		if branchable {
			per = 2
		}
		vAssert(len(bus.msgs) == commits*per, "exactly-one-notification-per-new-commit")
		k := 0
		for i := 0; i < commits && k < len(bus.msgs); i++ {
			up, ok := bus.msgs[k].Data.(event.Update)
			vAssert(ok && bus.msgs[k].Name == event.UpdateName, "update-event")
			if ok {
				vAssert(up.DocID == doc.ID().String() && up.CollectionID == vColID, "event-carries-the-document-id")
				vAssert(len(up.Block) > 0 && up.Cid.Defined(), "event-carries-block-bytes")
			}
			k++
			if branchable && k < len(bus.msgs) {
				cu, ok := bus.msgs[k].Data.(event.Update)
				vAssert(ok && cu.DocID == "" && cu.CollectionID == vColID, "collection-level-notification")
				k++
			}
		}
		vCover("committed")
	} else {
		T.Discard(ctx)
		if vFor("C20") {
			vAssert(len(bus.msgs) == 0, "rolled-back-operations-publish-nothing")
		}
		after := sStoreSnapshot(st)
		same := len(before) == len(after)
		for i := 0; same && i < len(before); i++ {
			same = before[i] == after[i]
		}
		if vFor("C06") {
			vAssert(same, "discarded-transaction-leaves-no-trace")
		}
		vCover("discarded")
	}
	vObserve("events", len(bus.msgs))
}

// VerifH_C05_ApiFaults — C05 at the API level: collection.Create / Update / Delete called without a transaction (each
// opens, commits or discards its own) over the transactional store model, with at most one failing store operation (any
// of the operations the call issues, block puts included) or a failing commit: the call either reports an error, leaves
// the store exactly as it was and publishes nothing, or reports success with exactly the effect and the notification of
// the same call on a store without faults. (A fault need not surface as an error: a failed existence probe in front of an
// idempotent write is harmless. What must not happen is success with another effect, or an error with an effect.)
// conf: api (0 create, 1 update, 2 delete), branchable, window (number of store operations covered by the schedule)
func VerifH_C05_ApiFaults() {
	api := vConfInt("api")
	branchable := vConfInt("branchable") != 0
	val := string([]byte{'a' + vU8("payload")%26})
	commitFails := vBool("commit-fails")
	var f *vFaults
	run := func(faulty bool) (before, after []byte, opErr error, published int) {
		e := vNewEnv(vFieldLWW, false)
		st := vNewStore()
		bus := &sBus{}
		d := &DB{rootstore: st, events: bus, signingDisabled: true}
		def := sDefinition(branchable)
		c := &collection{db: d, def: def}
		bg := context.Background()
		setupC, err := d.NewTxn(bg, false)
		vBound(err == nil, "setup txn")
		setup := setupC.(*Txn)
		sctx := InitContext(bg, setup)
		vBound(id.SetShortCollectionID(sctx, vColID) == nil, "short collection id")
		for _, fn := range sFields {
			vBound(id.SetShortFieldID(sctx, 1, fn) == nil, "short field id")
		}
		vBound(setup.Commit(sctx) == nil, "setup commit")
		var doc *client.Document
		if vSymbolic() {
			docID, perr := client.NewDocIDFromString(uDocIDs[0])
			vBound(perr == nil, "doc id")
			doc, err = client.NewDocWithID(docID, def)
			vBound(err == nil, "doc")
			vBound(doc.Set(sFields[0], val) == nil, "set")
		} else {
			doc, err = client.NewDocFromMap(map[string]any{sFields[0]: val}, def)
			vBound(err == nil, "doc")
		}
		if api != 0 {
			vBound(c.Create(bg, doc) == nil, "create")
		}
		before = sStoreSnapshot(st)
		events := len(bus.msgs)
		if faulty {
			if commitFails {
				st.commitErr = vErrInjected
			} else {
				f = &vFaults{window: vConfInt("window"), max: 1}
				st.faults, e.faults = f, f
			}
		}
		switch api {
		case 0:
			opErr = c.Create(bg, doc)
		case 1:
			vBound(doc.Set(sFields[1], val) == nil, "set")
			opErr = c.Update(bg, doc)
		default:
			_, opErr = c.Delete(bg, doc.ID())
		}
		st.faults, e.faults, st.commitErr = nil, nil, nil
		return before, sStoreSnapshot(st), opErr, len(bus.msgs) - events
	}
	_, cleanAfter, cleanErr, cleanPublished := run(false)
	vBound(cleanErr == nil, "the call succeeds on a store without faults")
	before, after, opErr, published := run(true)
	vCover("called")
	if f != nil {
		vBound(f.count <= f.window, "window-covers-all-store-operations")
	}
	eq := func(a, b []byte) bool {
		if len(a) != len(b) {
			return false
		}
		for i := range a {
			if a[i] != b[i] {
				return false
			}
		}
		return true
	}
	if commitFails {
		vAssert(opErr != nil, "failed-commit-is-reported")
	}
	if f != nil && f.injected == 0 {
		vAssert(opErr == nil, "no-fault-no-error")
	}
	if opErr != nil {
		vAssert(eq(before, after), "failed-call-leaves-the-store-as-it-was")
		vAssert(published == 0, "failed-call-publishes-nothing")
	} else {
		vAssert(eq(after, cleanAfter), "successful-call-has-exactly-the-effect-of-the-call-without-faults")
		vAssert(published == cleanPublished, "successful-call-publishes-its-notification")
	}
	// (which operation the k-th one is differs between the solver run and the native run — the block store and the
	// document codec are models in the former — so whether the call failed is not compared between them)
	vObserve("published-without-faults", cleanPublished)
}

// redirect target of (*client.Document).GenerateDocID for the C13 job below: the identifier as a function of the content
// (an injective table over the two contents the harness uses; canonical CBOR + SHA-256 + UUIDv5 natively)
func sDocIDOfContent(doc *client.Document) (client.DocID, error) {
	v, err := doc.Get(sFields[0])
	if err != nil {
		return client.DocID{}, err
	}
	if s, _ := v.(string); s == "a" {
		return client.NewDocIDFromString(uDocIDs[0])
	}
	return client.NewDocIDFromString(uDocIDs[1])
}

// VerifH_C13_CreateVerifiesDocID — C13: a document is stored under the identifier derived from its content. A document
// that claims an identifier (the `_docID` key of the map route) is created iff that identifier is the one its content
// gives; otherwise Create fails and stores nothing.
func VerifH_C13_CreateVerifiesDocID() {
	e := vNewEnv(vFieldLWW, false)
	_ = e
	st := vNewStore()
	d := &DB{rootstore: st, events: &sBus{}, signingDisabled: true}
	def := sDefinition(false)
	c := &collection{db: d, def: def}
	bg := context.Background()
	setupC, err := d.NewTxn(bg, false)
	vBound(err == nil, "setup txn")
	setup := setupC.(*Txn)
	sctx := InitContext(bg, setup)
	vBound(id.SetShortCollectionID(sctx, vColID) == nil, "short collection id")
	for _, f := range sFields {
		vBound(id.SetShortFieldID(sctx, 1, f) == nil, "short field id")
	}
	vBound(setup.Commit(sctx) == nil, "setup commit")
	before := sStoreSnapshot(st)

	contents := []string{"a", "b"}
	content, claimed := vChoose("content", 2), vChoose("claimed-id-of", 2)
	var doc *client.Document
	if vSymbolic() {
		docID, perr := client.NewDocIDFromString(uDocIDs[claimed])
		vBound(perr == nil, "doc id")
		doc, err = client.NewDocWithID(docID, def)
		vBound(err == nil, "doc")
		vBound(doc.Set(sFields[0], contents[content]) == nil, "set")
	} else {
		other, oerr := client.NewDocFromMap(map[string]any{sFields[0]: contents[claimed]}, def)
		vBound(oerr == nil, "doc")
		doc, err = client.NewDocFromMap(map[string]any{"_docID": other.ID().String(), sFields[0]: contents[content]}, def)
		vBound(err == nil, "doc")
	}
	cerr := c.Create(bg, doc)
	vCover("created")
	if content == claimed {
		vAssert(cerr == nil, "document-with-its-own-identifier-is-created")
	} else {
		vAssert(cerr != nil, "identifier-not-derived-from-the-content-is-rejected")
		after := sStoreSnapshot(st)
		same := len(before) == len(after)
		for i := 0; same && i < len(before); i++ {
			same = before[i] == after[i]
		}
		vAssert(same, "identifier-not-derived-from-the-content-is-rejected")
	}
	vObserve("created", cerr == nil)
}

// VerifH_C06_WriteConflict — C06 at the API level: two overlapping explicit transactions that both modify one document
// (the real collection.Update / Delete inside real db.NewTxn transactions over the transactional store model, whose
// commit fails with ErrTxnConflict when a key the transaction read was written by a transaction that committed after it
// started): the first commit succeeds, the second reports a conflict and leaves no trace.
// conf: second (0: the second transaction updates another field, 1: the same field, 2: deletes the document)
func VerifH_C06_WriteConflict() {
	e := vNewEnv(vFieldLWW, false)
	_ = e
	st := vNewStore()
	bus := &sBus{}
	d := &DB{rootstore: st, events: bus, signingDisabled: true}
	def := sDefinition(false)
	c := &collection{db: d, def: def}
	bg := context.Background()
	setupC, err := d.NewTxn(bg, false)
	vBound(err == nil, "setup txn")
	setup := setupC.(*Txn)
	sctx := InitContext(bg, setup)
	vBound(id.SetShortCollectionID(sctx, vColID) == nil, "short collection id")
	for _, f := range sFields {
		vBound(id.SetShortFieldID(sctx, 1, f) == nil, "short field id")
	}
	vBound(setup.Commit(sctx) == nil, "setup commit")

	val := string([]byte{'a' + vU8("payload")%26})
	mk := func() *client.Document {
		var doc *client.Document
		var derr error
		if vSymbolic() {
			docID, perr := client.NewDocIDFromString(uDocIDs[0])
			vBound(perr == nil, "doc id")
			doc, derr = client.NewDocWithID(docID, def)
			vBound(derr == nil, "doc")
			vBound(doc.Set(sFields[0], val) == nil, "set")
		} else {
			doc, derr = client.NewDocFromMap(map[string]any{sFields[0]: val}, def)
			vBound(derr == nil, "doc")
		}
		return doc
	}
	vBound(c.Create(bg, mk()) == nil, "create")

	t1C, err := d.NewTxn(bg, false)
	vBound(err == nil, "txn 1")
	t2C, err := d.NewTxn(bg, false)
	vBound(err == nil, "txn 2")
	t1, t2 := t1C.(*Txn), t2C.(*Txn)
	ctx1, ctx2 := InitContext(bg, t1), InitContext(bg, t2)
	d1 := mk()
	vBound(d1.Set(sFields[1], "x") == nil, "set")
	vBound(c.Update(ctx1, d1) == nil, "update in the first transaction")
	d2 := mk()
	switch vConfInt("second") {
	case 0:
		vBound(d2.Set(sFields[0], "y") == nil, "set")
		vBound(c.Update(ctx2, d2) == nil, "update in the second transaction")
	case 1:
		vBound(d2.Set(sFields[1], "y") == nil, "set")
		vBound(c.Update(ctx2, d2) == nil, "update in the second transaction")
	default:
		ok, derr := c.Delete(ctx2, d2.ID())
		vBound(ok && derr == nil, "delete in the second transaction")
	}
	first, second := t1, t2
	fctx, sctx2 := ctx1, ctx2
	if vBool("second-commits-first") {
		first, second, fctx, sctx2 = t2, t1, ctx2, ctx1
	}
	vAssert(first.Commit(fctx) == nil, "first-commit-succeeds")
	after1 := sStoreSnapshot(st)
	events := len(bus.msgs)
	cerr := second.Commit(sctx2)
	vCover("committed")
	vAssert(cerr != nil, "second-of-two-overlapping-writers-gets-a-conflict")
	after2 := sStoreSnapshot(st)
	same := len(after1) == len(after2)
	for i := 0; same && i < len(after1); i++ {
		same = after1[i] == after2[i]
	}
	vAssert(same, "conflicting-transaction-leaves-no-trace")
	vAssert(len(bus.msgs) == events, "conflicting-transaction-publishes-nothing")
	vObserve("conflict", cerr != nil)
}
