//go:build verif

package db

// C06.O2 — collection API calls issued inside an explicit transaction run in that transaction: they read its
// snapshot plus its own writes, open no transaction of their own, touch the store only through it, and neither
// commit nor discard it. The store is the transactional model (kvtxn), the transaction is a real db.NewTxn.

import (
	"context"

	"github.com/sourcenetwork/corekv"

	"github.com/sourcenetwork/defradb/client"
	"github.com/sourcenetwork/defradb/internal/datastore"
	"github.com/sourcenetwork/defradb/internal/db/base"
	"github.com/sourcenetwork/defradb/internal/db/id"
	"github.com/sourcenetwork/defradb/internal/keys"
)

var aDocIDs = []string{"bae-0b7a5c3e-1c5d-5e3a-9c1b-0f6f1f4a1a01", "bae-0b7a5c3e-1c5d-5e3a-9c1b-0f6f1f4a1a02", "bae-0b7a5c3e-1c5d-5e3a-9c1b-0f6f1f4a1a03"}

func aPrimaryKey(ctx context.Context, docID string) []byte {
	sid, err := id.GetShortCollectionID(ctx, vColID)
	if err != nil {
		panic("short collection id")
	}
	return keys.PrimaryDataStoreKey{CollectionShortID: sid, DocID: docID}.Bytes()
}

// aPutDoc writes what collection.create stores for a document without field values: the primary-key marker and the
// object marker under the value prefix
func aPutDoc(ctx context.Context, w corekv.Writer, docID string) bool {
	sid, err := id.GetShortCollectionID(ctx, vColID)
	if err != nil {
		return false
	}
	vk := keys.DataStoreKey{CollectionShortID: sid, DocID: docID, InstanceType: keys.ValueKey}
	return w.Set(ctx, aPrimaryKey(ctx, docID), []byte{base.ObjectMarker}) == nil && w.Set(ctx, vk.Bytes(), []byte{base.ObjectMarker}) == nil
}

func aDrain(ch <-chan client.DocIDResult) (ids []string, failed bool) {
	for r := range ch {
		if r.Err != nil {
			failed = true
			continue
		}
		ids = append(ids, r.ID.String())
	}
	return
}

func aHas(ids []string, x string) bool {
	for _, s := range ids {
		if s == x {
			return true
		}
	}
	return false
}

// VerifH_C06_ApiInTxn — conf api: 0 GetAllDocIDs, 1 Exists, 2 Create, 3 Delete
func VerifH_C06_ApiInTxn() {
	st := vNewStore()
	bus := &sBus{}
	d := &DB{rootstore: st, events: bus, signingDisabled: true}
	def := sDefinition(false)
	c := &collection{db: d, def: def}
	bg := context.Background()

	// committed before T starts: the short ids and document 0 (symbolically: present or not)
	setupC, err := d.NewTxn(bg, false)
	vBound(err == nil, "setup txn")
	setup := setupC.(*Txn)
	sctx := InitContext(bg, setup)
	vBound(id.SetShortCollectionID(sctx, vColID) == nil, "short collection id")
	for _, f := range sFields {
		vBound(id.SetShortFieldID(sctx, 1, f) == nil, "short field id")
	}
	have0 := vBool("doc0-committed-before")
	if have0 {
		vBound(aPutDoc(sctx, setup.Datastore(), aDocIDs[0]), "doc0")
	}
	vBound(setup.Commit(sctx) == nil, "setup commit")

	// the explicit transaction T
	TC, err := d.NewTxn(bg, false)
	vBound(err == nil, "txn")
	T := TC.(*Txn)
	ctx := InitContext(bg, T)
	// T's own uncommitted write: document 1
	own1 := vBool("doc1-written-in-T")
	if own1 {
		vBound(aPutDoc(ctx, T.Datastore(), aDocIDs[1]), "doc1")
	}
	// committed by someone else after T started: document 2
	late2 := vBool("doc2-committed-after-T-started")
	if late2 {
		vBound(aPutDoc(ctx, datastore.DatastoreFrom(st), aDocIDs[2]), "doc2")
	}
	txnsBefore, commitsBefore := st.txns, st.commits
	directBefore := st.kv.ops

	var docIDs [3]client.DocID
	for i := range docIDs {
		x, perr := client.NewDocIDFromString(aDocIDs[i])
		vBound(perr == nil, "doc id")
		docIDs[i] = x
	}
	switch vConfInt("api") {
	case 0:
		ch, lerr := c.GetAllDocIDs(ctx)
		vAssert(lerr == nil, "api-no-error")
		if lerr == nil {
			ids, failed := aDrain(ch)
			vAssert(!failed, "api-no-error")
			vAssert(aHas(ids, aDocIDs[0]) == have0, "read-sees-snapshot")
			vAssert(aHas(ids, aDocIDs[1]) == own1, "read-sees-own-writes")
			vAssert(!aHas(ids, aDocIDs[2]), "read-does-not-see-later-commits")
			vAssert(len(ids) == vB2i(have0)+vB2i(own1), "read-sees-exactly-snapshot-plus-own-writes")
		}
	case 1:
		which := vChoose("which", 3)
		ok, eerr := c.Exists(ctx, docIDs[which])
		vAssert(eerr == nil, "api-no-error")
		want := [3]bool{have0, own1, false}[which]
		vAssert(ok == want, "read-sees-exactly-snapshot-plus-own-writes")
	case 2:
		which := vChoose("which", 3)
		doc, gerr := c.Get(ctx, docIDs[which], false)
		want := [3]bool{have0, own1, false}[which]
		vAssert((gerr == nil && doc != nil) == want, "read-sees-exactly-snapshot-plus-own-writes")
	}
	vCover("called")
	vAssert(st.txns == txnsBefore, "api-opens-no-transaction-of-its-own")
	vAssert(st.commits == commitsBefore, "api-does-not-commit-the-callers-transaction")
	vAssert(st.kv.ops == directBefore, "api-touches-the-store-only-through-the-transaction")
	// T is still usable and still holds its write; nothing of it is visible outside
	if own1 {
		ok, herr := T.Datastore().Has(ctx, aPrimaryKey(ctx, aDocIDs[1]))
		vAssert(herr == nil && ok, "transaction-still-open-after-the-call")
		vis, _ := datastore.DatastoreFrom(st).Has(bg, aPrimaryKey(ctx, aDocIDs[1]))
		vAssert(!vis, "uncommitted-write-invisible-outside")
	}
	// a call without a transaction sees the committed state only
	ch, lerr := c.GetAllDocIDs(bg)
	vAssert(lerr == nil, "api-no-error")
	if lerr == nil {
		ids, _ := aDrain(ch)
		vAssert(aHas(ids, aDocIDs[0]) == have0 && aHas(ids, aDocIDs[2]) == late2 && !aHas(ids, aDocIDs[1]), "non-transactional-read-sees-committed-state-only")
	}
	vObserve("txns", st.txns)
}

func vB2i(b bool) int {
	if b {
		return 1
	}
	return 0
}
