//go:build verif

package db

// C05.O3 (second part): API calls run inside the caller's transaction when there is one — Commit/Discard
// issued by the API code are then no-ops and the caller decides — and inside their own transaction otherwise.

import (
	"context"

	"github.com/sourcenetwork/defradb/client"
	"github.com/sourcenetwork/defradb/internal/datastore"
	"github.com/sourcenetwork/defradb/internal/db/description"
	"github.com/sourcenetwork/defradb/internal/db/id"
)

type tDB struct {
	root   *vKV
	opened int
	fail   bool
}

func (d *tDB) NewTxn(ctx context.Context, readonly bool) (client.Txn, error) {
	d.opened++
	if d.fail {
		return nil, vErrInjected
	}
	return wrapDatastoreTxn(datastore.NewTxnFrom(ctx, d.root, 9, readonly), nil), nil
}

// VerifH_C05_EnsureTxn — conf: ctxkind (0 no transaction in the context, 1 a *datastore.BasicTxn, 2 an implicit
// *Txn, 3 an explicit *Txn)
func VerifH_C05_EnsureTxn() {
	root := &vKV{}
	d := &tDB{root: root, fail: vBool("newtxn-fails")}
	ctx := context.Background()
	basic := datastore.NewTxnFrom(ctx, root, 5, false)
	kind := vConfInt("ctxkind")
	switch kind {
	case 1:
		ctx = datastore.CtxSetTxn(ctx, basic)
	case 2:
		ctx = datastore.CtxSetFromClientTxn(ctx, &Txn{basic, nil, false})
	case 3:
		ctx = datastore.CtxSetFromClientTxn(ctx, &Txn{basic, nil, true})
	}
	hits := 0
	newCtx, txn, err := ensureContextTxn(ctx, d, false)
	vCover("ensured")
	if kind == 0 {
		vAssert(d.opened == 1, "own-transaction-opened")
		vAssert((err != nil) == d.fail, "open-error-reported")
		if err != nil {
			return
		}
		txn.OnSuccess(func() { hits++ })
		vAssert(txn.Commit(newCtx) == nil, "commit")
		vAssert(root.commits == 1 && hits == 1, "own-transaction-commits-and-notifies")
		return
	}
	vAssert(err == nil && d.opened == 0, "caller-transaction-reused")
	if err != nil {
		return
	}
	got, ok := datastore.CtxTryGetTxn(newCtx)
	vAssert(ok && got == txn, "context-carries-the-returned-transaction")
	txn.OnSuccess(func() { hits++ })
	vAssert(txn.Commit(newCtx) == nil, "commit-is-a-no-op")
	txn.Discard(newCtx)
	vAssert(root.commits == 0 && root.discards == 0 && hits == 0, "api-code-cannot-commit-or-discard-the-callers-transaction")
	// the caller commits: the effect and the notification happen now, once
	vAssert(basic.Commit(ctx) == nil, "caller-commit")
	vAssert(root.commits == 1 && hits == 1, "callback-runs-when-the-caller-commits")
	vAssert(txn.ID() == 5, "same-underlying-transaction")
}

// VerifH_C05_SaveCollectionFaults — a collection description is saved again (what CreateIndex, DropIndex, PatchCollection,
// SetActiveSchemaVersion do for an existing collection) by a later request (fresh short-id caches) with at most one failing
// system-store operation: the real description.SaveCollection with id.SetShortCollectionID / SetShortFieldIDs reports the
// fault, and when it reports success the short ids of the collection and of its fields are what they were.
func VerifH_C05_SaveCollectionFaults() {
	e := vNewEnv(vFieldLWW, true)
	def := sDefinition(false)
	vBound(description.SaveCollection(e.ctx, def.Version) == nil, "first save")
	colID, err := id.GetShortCollectionID(e.ctx, def.Version.CollectionID)
	vBound(err == nil, "short collection id")
	var before [2]uint32
	for i, f := range sFields {
		before[i], err = id.GetShortFieldID(e.ctx, colID, f)
		vBound(err == nil && before[i] != 0, "short field id")
	}
	// a later request: the same transaction content, fresh caches
	ctx := datastore.CtxSetTxn(context.Background(), e.txn)
	ctx = id.InitCollectionShortIDCache(ctx)
	ctx = id.InitFieldShortIDCache(ctx)
	f := &vFaults{window: 40, max: 1}
	e.txn.system.faults = f
	desc := def.Version
	desc.Indexes = []client.IndexDescription{{Name: "idx", ID: 1, Fields: []client.IndexedFieldDescription{{Name: sFields[0]}}}}
	serr := description.SaveCollection(ctx, desc)
	e.txn.system.faults = nil
	vCover("saved-again")
	vBound(f.count <= f.window, "window-covers-all-store-operations")
	vAssert(vImplies(f.injected > 0, serr != nil), "fault-propagates")
	vAssert(vImplies(f.injected == 0, serr == nil), "no-fault-no-error")
	if serr == nil {
		ctx2 := datastore.CtxSetTxn(context.Background(), e.txn)
		ctx2 = id.InitCollectionShortIDCache(ctx2)
		ctx2 = id.InitFieldShortIDCache(ctx2)
		for i, fn := range sFields {
			got, gerr := id.GetShortFieldID(ctx2, colID, fn)
			vAssert(gerr == nil && got == before[i], "successful-save-keeps-the-short-ids")
		}
	}
	vObserve("failed", serr != nil)
}
