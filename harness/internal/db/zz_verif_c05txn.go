//go:build verif

package db

// C05.O3 (second part): API calls run inside the caller's transaction when there is one — Commit/Discard
// issued by the API code are then no-ops and the caller decides — and inside their own transaction otherwise.

import (
	"context"

	"github.com/sourcenetwork/defradb/client"
	"github.com/sourcenetwork/defradb/internal/datastore"
)

type tDB struct {
	root   *vKV
	opened int
	fail   bool
}

func (d *tDB) NewTxn(ctx context.Context, readonly bool) (client.Txn, error) {
	d.opened++
	if d.fail {
		return nil, vErrInjected
	}
	return wrapDatastoreTxn(datastore.NewTxnFrom(ctx, d.root, 9, readonly), nil), nil
}

// VerifH_C05_EnsureTxn — conf: ctxkind (0 no transaction in the context, 1 a *datastore.BasicTxn, 2 an implicit
// *Txn, 3 an explicit *Txn)
func VerifH_C05_EnsureTxn() {
	root := &vKV{}
	d := &tDB{root: root, fail: vBool("newtxn-fails")}
	ctx := context.Background()
	basic := datastore.NewTxnFrom(ctx, root, 5, false)
	kind := vConfInt("ctxkind")
	switch kind {
	case 1:
		ctx = datastore.CtxSetTxn(ctx, basic)
	case 2:
		ctx = datastore.CtxSetFromClientTxn(ctx, &Txn{basic, nil, false})
	case 3:
		ctx = datastore.CtxSetFromClientTxn(ctx, &Txn{basic, nil, true})
	}
	hits := 0
	newCtx, txn, err := ensureContextTxn(ctx, d, false)
	vCover("ensured")
	if kind == 0 {
		vAssert(d.opened == 1, "own-transaction-opened")
		vAssert((err != nil) == d.fail, "open-error-reported")
		if err != nil {
			return
		}
		txn.OnSuccess(func() { hits++ })
		vAssert(txn.Commit(newCtx) == nil, "commit")
		vAssert(root.commits == 1 && hits == 1, "own-transaction-commits-and-notifies")
		return
	}
	vAssert(err == nil && d.opened == 0, "caller-transaction-reused")
	if err != nil {
		return
	}
	got, ok := datastore.CtxTryGetTxn(newCtx)
	vAssert(ok && got == txn, "context-carries-the-returned-transaction")
	txn.OnSuccess(func() { hits++ })
	vAssert(txn.Commit(newCtx) == nil, "commit-is-a-no-op")
	txn.Discard(newCtx)
	vAssert(root.commits == 0 && root.discards == 0 && hits == 0, "api-code-cannot-commit-or-discard-the-callers-transaction")
	// the caller commits: the effect and the notification happen now, once
	vAssert(basic.Commit(ctx) == nil, "caller-commit")
	vAssert(root.commits == 1 && hits == 1, "callback-runs-when-the-caller-commits")
	vAssert(txn.ID() == 5, "same-underlying-transaction")
}
