//go:build verif

package db

// C07.O4 — a unique index rejects exactly the writes that would leave two live documents sharing a non-null
// indexed tuple: the real addNewUniqueKey / makeUniqueKeyValueRecord / validateUniqueKeyValue / hasIndexKeyNilField.
// It also pins the shape of the entries (key = values, value = docID; with a nil component: key = values + docID,
// empty value) that the read-side harness of C07 assumes.

import (
	"bytes"

	"github.com/sourcenetwork/defradb/client"
	"github.com/sourcenetwork/defradb/internal/keys"
)

type uVal struct {
	null bool
	i    int64
}

func uMk(name string) uVal {
	if vChoose(name+".null", 2) == 1 {
		return uVal{null: true}
	}
	return uVal{i: int64(vI8(name))}
}

func (v uVal) normal() client.NormalValue {
	if v.null {
		n, err := client.NewNormalNil(client.FieldKind_NILLABLE_INT)
		if err != nil {
			panic("nil")
		}
		return n
	}
	return client.NewNormalInt(v.i)
}

var uDocIDs = []string{"bae-0b7a5c3e-1c5d-5e3a-9c1b-0f6f1f4a1a01", "bae-0b7a5c3e-1c5d-5e3a-9c1b-0f6f1f4a1a02"}

// VerifH_C07_UniqueWrite — conf: fields (1 or 2 indexed fields)
func VerifH_C07_UniqueWrite() {
	nf := vConfInt("fields")
	e := vNewEnv(vFieldCounter, true)
	descs := []client.SchemaFieldDescription{{Name: "f0", Kind: client.FieldKind_NILLABLE_INT}, {Name: "f1", Kind: client.FieldKind_NILLABLE_INT}}[:nf]
	var vals [2][]uVal
	var docs [2]*client.Document
	var errs [2]error
	for d := 0; d < 2; d++ {
		id, err := client.NewDocIDFromString(uDocIDs[d])
		if err != nil {
			panic("doc id")
		}
		docs[d], err = client.NewDocWithID(id, e.def)
		if err != nil {
			panic("new doc")
		}
		var fields []keys.IndexedField
		for f := 0; f < nf; f++ {
			v := uMk("d" + string(rune('0'+d)) + "f" + string(rune('0'+f)))
			vals[d] = append(vals[d], v)
			fields = append(fields, keys.IndexedField{Value: v.normal()})
		}
		key := keys.NewIndexDataStoreKey(1, 1, fields)
		errs[d] = addNewUniqueKey(e.ctx, docs[d], key, descs)
	}
	vCover("written")
	vAssert(errs[0] == nil, "first-write-accepted")
	same, anyNull := true, false
	for f := 0; f < nf; f++ {
		anyNull = anyNull || vals[0][f].null || vals[1][f].null
		if !vals[0][f].null && !vals[1][f].null {
			same = vAnd(same, vals[0][f].i == vals[1][f].i)
		} else {
			same = false
		}
	}
	_ = anyNull
	vAssert((errs[1] != nil) == same, "second-write-rejected-iff-same-non-null-tuple")
	// shape of the stored entries
	for d := 0; d < 2; d++ {
		if errs[d] != nil {
			continue
		}
		var fields []keys.IndexedField
		hasNil := false
		for f := 0; f < nf; f++ {
			fields = append(fields, keys.IndexedField{Value: vals[d][f].normal()})
			hasNil = hasNil || vals[d][f].null
		}
		if hasNil {
			fields = append(fields, keys.IndexedField{Value: client.NewNormalString(uDocIDs[d])})
		}
		k := keys.NewIndexDataStoreKey(1, 1, fields)
		got, ok := e.txn.data.peek(k.Bytes())
		vAssert(ok, "entry-stored-under-the-expected-key")
		if ok {
			if hasNil {
				vAssert(len(got) == 0, "nil-entry-has-empty-value")
			} else {
				vAssert(bytes.Equal(got, []byte(uDocIDs[d])), "entry-value-is-the-doc-id")
			}
		}
	}
	vObserve("rejected", errs[1] != nil)
}
