//go:build verif

package db

// C07.O7 — an index created after the data: documents are created through the real collection.Create (string field
// set, null or omitted), then the real indexExistingDocs fills a new index from them (iterateAllDocs: the document
// fetcher, the value decoder, client.Document; collectionSimpleIndex.Save): the index holds exactly one entry per live
// document, under its current value or the null entry — a missing entry makes index-backed requests differ from scans.

import (
	"bytes"
	"context"

	"github.com/sourcenetwork/corekv"

	"github.com/sourcenetwork/defradb/client"
	"github.com/sourcenetwork/defradb/internal/db/id"
	"github.com/sourcenetwork/defradb/internal/keys"
)

// VerifH_C07_IndexAfterData — two documents; the indexed field f of each is a one-letter string, null, or omitted
func VerifH_C07_IndexAfterData() {
	e := vNewEnv(vFieldLWW, false)
	_ = e
	st := vNewStore()
	d := &DB{rootstore: st, events: &sBus{}, signingDisabled: true}
	def := sDefinition(false)
	c := &collection{db: d, def: def}
	bg := context.Background()
	TC, err := d.NewTxn(bg, false)
	vBound(err == nil, "txn")
	T := TC.(*Txn)
	ctx := InitContext(bg, T)
	vBound(id.SetShortCollectionID(ctx, vColID) == nil, "short collection id")
	for _, f := range sFields {
		vBound(id.SetShortFieldID(ctx, 1, f) == nil, "short field id")
	}
	type val struct {
		mode int // 0 set, 1 null, 2 omitted
		s    string
	}
	var vals [2]val
	var ids [2]string
	for i := range vals {
		vals[i] = val{mode: vChoose("field", 3), s: string([]byte{'a' + vU8("letter")%3})}
		m := map[string]any{sFields[1]: "k" + string(rune('0'+i))} // (the other field makes the two documents distinct)
		switch vals[i].mode {
		case 0:
			m[sFields[0]] = vals[i].s
		case 1:
			m[sFields[0]] = nil
		}
		var doc *client.Document
		if vSymbolic() {
			docID, perr := client.NewDocIDFromString(uDocIDs[i])
			vBound(perr == nil, "doc id")
			doc, err = client.NewDocWithID(docID, def)
			vBound(err == nil, "doc")
			for k, v := range m {
				vBound(doc.Set(k, v) == nil, "set")
			}
		} else {
			doc, err = client.NewDocFromMap(m, def)
			vBound(err == nil, "doc")
		}
		vBound(c.Create(ctx, doc) == nil, "create")
		ids[i] = doc.ID().String()
	}
	desc := client.IndexDescription{Name: "idx", ID: 1, Fields: []client.IndexedFieldDescription{{Name: sFields[0]}}}
	index, err := NewCollectionIndex(c, desc)
	vBound(err == nil, "index")
	if err != nil {
		return
	}
	ierr := c.indexExistingDocs(ctx, index)
	vCover("indexed")
	vAssert(ierr == nil, "index-existing-documents-no-error")
	// the entries of the index in the transaction
	prefixKey := keys.IndexDataStoreKey{CollectionShortID: 1, IndexID: 1}
	prefix := prefixKey.Bytes()
	it, err := T.Datastore().Iterator(ctx, corekv.IterOptions{Prefix: prefix})
	vBound(err == nil, "iterator")
	var got [][]byte
	for {
		ok, nerr := it.Next()
		if nerr != nil || !ok {
			break
		}
		got = append(got, append([]byte{}, it.Key()...))
	}
	_ = it.Close()
	vAssert(len(got) == 2, "one-entry-per-live-document")
	for i := range vals {
		var nv client.NormalValue
		if vals[i].mode == 0 {
			nv = client.NewNormalString(vals[i].s)
		} else {
			nv, _ = client.NewNormalNil(client.FieldKind_NILLABLE_STRING)
		}
		wantKey := keys.NewIndexDataStoreKey(1, 1, []keys.IndexedField{{Value: nv}, {Value: client.NewNormalString(ids[i])}})
		want := wantKey.Bytes()
		found := false
		for _, g := range got {
			if bytes.Equal(g, want) {
				found = true
			}
		}
		vAssert(found, "entry-under-the-current-value-or-the-null-entry")
	}
	vObserve("entries", len(got))
}
