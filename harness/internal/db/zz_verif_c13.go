//go:build verif

package db

// C13 — the version and root identifiers assigned to a set of type definitions depend only on those
// definitions: not on their order in the SDL, and not on the run (map-iteration nondeterminism).
// 2-safety harness: the real setSchemaIDs is run twice inside one path — on the input as given and on a
// permutation of it — each run with its own (solver-chosen) map iteration orders.

import (
	"encoding/binary"
	"encoding/json"

	"github.com/ipfs/go-cid"

	"github.com/sourcenetwork/defradb/client"
)

var vSchemaNames = []string{"A", "B", "C", "D"}

// a schema set: s schemas, each with up to two relation fields whose targets are solver-chosen
func vMkSchemas(s int) []client.SchemaDescription {
	slots := vConfInt("slots")
	var out []client.SchemaDescription
	for i := 0; i < s; i++ {
		sd := client.SchemaDescription{Name: vSchemaNames[i]}
		sd.Fields = append(sd.Fields, client.SchemaFieldDescription{Name: "name", Kind: client.FieldKind_NILLABLE_STRING, Typ: client.LWW_REGISTER})
		for r := 0; r < slots; r++ {
			// target: one of the s schemas, an undefined type "X", or no relation
			t := vChoose("target", s+2)
			if t == s+1 {
				continue
			}
			name := "X"
			if t < s {
				name = vSchemaNames[t]
			}
			sd.Fields = append(sd.Fields, client.SchemaFieldDescription{
				Name: "rel" + string(rune('0'+r)), Kind: client.NewNamedKind(name, r == 1), Typ: client.LWW_REGISTER})
		}
		out = append(out, sd)
	}
	return out
}

// vMkSchemasFixed builds a given shape: "A:B,A,X|B:A|C:Y" = schema A with relations to B, A and the undefined
// type X, ... (single-letter names)
func vMkSchemasFixed(spec string) []client.SchemaDescription {
	var out []client.SchemaDescription
	i := 0
	for i < len(spec) {
		sd := client.SchemaDescription{Name: string(spec[i])}
		sd.Fields = append(sd.Fields, client.SchemaFieldDescription{Name: "name", Kind: client.FieldKind_NILLABLE_STRING, Typ: client.LWW_REGISTER})
		i++
		r := 0
		for i < len(spec) && spec[i] != '|' {
			if spec[i] == ':' || spec[i] == ',' {
				i++
				continue
			}
			sd.Fields = append(sd.Fields, client.SchemaFieldDescription{
				Name: "rel" + string(rune('0'+r)), Kind: client.NewNamedKind(string(spec[i]), r%2 == 1), Typ: client.LWW_REGISTER})
			r++
			i++
		}
		i++
		out = append(out, sd)
	}
	return out
}

func vCloneSchemas(in []client.SchemaDescription) []client.SchemaDescription {
	out := make([]client.SchemaDescription, len(in))
	for i := range in {
		out[i] = in[i]
		out[i].Fields = append([]client.SchemaFieldDescription{}, in[i].Fields...)
	}
	return out
}

func vKindString(k client.FieldKind) string {
	switch x := k.(type) {
	case *client.SchemaKind:
		return "schema:" + x.Root
	case *client.SelfKind:
		return "self:" + x.RelativeID
	case *client.NamedKind:
		return "named:" + x.Name
	}
	return "scalar"
}

// VerifH_C13_SchemaIDs — conf: s (number of schemas)
func VerifH_C13_SchemaIDs() {
	s := vConfInt("s")
	var base []client.SchemaDescription
	if shape := vConfStr("shape"); shape != "" {
		base = vMkSchemasFixed(shape)
		s = len(base)
	} else {
		base = vMkSchemas(s)
	}
	run1 := vCloneSchemas(base)
	// run 2 on a permutation of the definitions
	rest := make([]int, s)
	for i := range rest {
		rest[i] = i
	}
	var run2 []client.SchemaDescription
	for len(rest) > 0 {
		k := vChoose("perm", len(rest))
		c := vCloneSchemas(base[rest[k] : rest[k]+1])
		run2 = append(run2, c[0])
		rest = append(rest[:k:k], rest[k+1:]...)
	}
	err1 := setSchemaIDs(run1)
	err2 := setSchemaIDs(run2)
	vCover("assigned")
	vAssert(err1 == nil && err2 == nil, "no-error")
	for i := range run1 {
		for j := range run2 {
			if run1[i].Name != run2[j].Name {
				continue
			}
			vAssert(run1[i].VersionID == run2[j].VersionID, "version-id-independent-of-order-and-run")
			vAssert(run1[i].Root == run2[j].Root, "root-independent-of-order-and-run")
			vAssert(len(run1[i].Fields) == len(run2[j].Fields), "fields-kept")
			for f := range run1[i].Fields {
				if f < len(run2[j].Fields) {
					vAssert(vKindString(run1[i].Fields[f].Kind) == vKindString(run2[j].Fields[f].Kind), "relation-kinds-independent-of-order-and-run")
				}
			}
		}
		vAssert(run1[i].VersionID != "", "id-assigned")
	}
	// distinct definitions never share a version id
	same := 0
	for i := range run1 {
		for j := i + 1; j < len(run1); j++ {
			vAssert(run1[i].VersionID != run1[j].VersionID, "distinct-schemas-distinct-ids")
			if run1[i].Root == run1[j].Root {
				same++
			}
		}
	}
	vObserve("same-roots", same)
}

// generateSetID runs for real inside the solver run (its ordering of the set, the choice between one schema and the
// list, the use of the encoded bytes). Only its two leaf calls are replaced there: json.Marshal by a canonical injective
// serialisation of the value (vCanonBytes; natively encoding/json), cid.NewSHA256CidV1 by a CID whose "digest" is
// the data itself (an identity multihash: injective, no hashing). The harness compares identifiers for equality only.
func vCanonMarshal(v any) ([]byte, error) { return vCanonBytes(v), nil }

func vCanonBytes(v any) []byte {
	b, err := json.Marshal(v)
	if err != nil {
		panic("json.Marshal")
	}
	return b
}

func vIdentityCid(data []byte) (cid.Cid, error) {
	mh := binary.AppendUvarint([]byte{0x00}, uint64(len(data)))
	mh = append(mh, data...)
	return cid.NewCidV1(cid.Raw, mh), nil
}

// VerifH_C13_Reach — vacuity twin
func VerifH_C13_Reach() {
	ss := []client.SchemaDescription{{Name: "A", Fields: []client.SchemaFieldDescription{{Name: "name", Kind: client.FieldKind_NILLABLE_STRING}}}}
	err := setSchemaIDs(ss)
	vCover("end")
	vAssert(err != nil || ss[0].VersionID == "", "reach-twin")
}
