//go:build verif

package db

// C07.O8 — index maintenance by an update through the collection API. A document is created through the real
// collection.Create on a collection that has an index on field f (indexNewDoc), then updated through the real
// collection.Update (update -> save -> updateIndexedDoc -> c.get over the document fetcher -> collectionSimpleIndex.Update,
// and the CRDT merge that writes the value). The update carries the whole document, only the other field (a partial
// document: NewDocWithID + Set, D47) or a new value of f. conf counter=1: f is an Int counter (pncounter), the value an
// update carries is an increment (D48). Afterwards the index holds exactly one entry for the document, under the value
// the document holds now (read back from the primary store by the real c.get).

import (
	"bytes"
	"context"

	"github.com/sourcenetwork/corekv"

	"github.com/sourcenetwork/defradb/client"
	"github.com/sourcenetwork/defradb/internal/db/id"
	"github.com/sourcenetwork/defradb/internal/keys"
)

func VerifH_C07_UpdateKeepsIndex() {
	counter := vConfInt("counter") != 0
	e := vNewEnv(vFieldLWW, false)
	_ = e
	st := vNewStore()
	d := &DB{rootstore: st, events: &sBus{}, signingDisabled: true}
	def := sDefinition(false)
	if counter {
		def.Schema.Fields[0].Kind = client.FieldKind_NILLABLE_INT
		def.Schema.Fields[0].Typ = client.PN_COUNTER
	}
	desc := client.IndexDescription{Name: "idx", ID: 1, Fields: []client.IndexedFieldDescription{{Name: sFields[0]}}}
	def.Version.Indexes = []client.IndexDescription{desc} // (CollectIndexedFields reads the descriptions of the definition)
	c := &collection{db: d, def: def}
	bg := context.Background()
	TC, err := d.NewTxn(bg, false)
	vBound(err == nil, "txn")
	T := TC.(*Txn)
	ctx := InitContext(bg, T)
	vBound(id.SetShortCollectionID(ctx, vColID) == nil, "short collection id")
	for _, f := range sFields {
		vBound(id.SetShortFieldID(ctx, 1, f) == nil, "short field id")
	}
	index, err := NewCollectionIndex(c, desc)
	vBound(err == nil, "index")
	if err != nil {
		return
	}
	c.indexes = []CollectionIndex{index}

	value := func(what string) any {
		if counter {
			return int64(vU8(what) % 4)
		}
		return string([]byte{'a' + vU8(what)%3})
	}
	first := value("created with")
	m := map[string]any{sFields[0]: first, sFields[1]: "k"}
	var doc *client.Document
	if vSymbolic() {
		docID, perr := client.NewDocIDFromString(uDocIDs[0])
		vBound(perr == nil, "doc id")
		doc, err = client.NewDocWithID(docID, def)
		vBound(err == nil, "doc")
		for k, v := range m {
			vBound(doc.Set(k, v) == nil, "set")
		}
	} else {
		doc, err = client.NewDocFromMap(m, def)
		vBound(err == nil, "doc")
	}
	vBound(c.Create(ctx, doc) == nil, "create")

	upd := doc
	switch vChoose("update carries", 3) {
	case 0: // the created document with the other field changed
		vBound(upd.Set(sFields[1], "z") == nil, "set")
	case 1: // only the other field
		upd, err = client.NewDocWithID(doc.ID(), def)
		vBound(err == nil, "partial doc")
		vBound(upd.Set(sFields[1], "z") == nil, "set")
	default: // the indexed field (a counter: an increment)
		upd, err = client.NewDocWithID(doc.ID(), def)
		vBound(err == nil, "partial doc")
		vBound(upd.Set(sFields[0], value("updated with")) == nil, "set")
	}
	uerr := c.Update(ctx, upd)
	vCover("updated")
	vAssert(uerr == nil, "update-no-error")
	if uerr != nil {
		return
	}

	// what the document holds now, read by the real collection code from the primary store
	primaryKey, err := c.getPrimaryKeyFromDocID(ctx, doc.ID())
	vBound(err == nil, "primary key")
	now, err := c.get(ctx, primaryKey, c.Definition().CollectIndexedFields(), false)
	vBound(err == nil && now != nil, "read back")
	fv, err := now.GetValue(sFields[0])
	vBound(err == nil, "indexed field read back")

	prefixKey := keys.IndexDataStoreKey{CollectionShortID: 1, IndexID: 1}
	it, err := T.Datastore().Iterator(ctx, corekv.IterOptions{Prefix: prefixKey.Bytes()})
	vBound(err == nil, "iterator")
	var got [][]byte
	for {
		ok, nerr := it.Next()
		if nerr != nil || !ok {
			break
		}
		got = append(got, append([]byte{}, it.Key()...))
	}
	_ = it.Close()
	vAssert(len(got) == 1, "one-entry-per-live-document")
	wantKey := keys.NewIndexDataStoreKey(1, 1, []keys.IndexedField{{Value: fv.NormalValue()}, {Value: client.NewNormalString(doc.ID().String())}})
	vAssert(len(got) == 1 && bytes.Equal(got[0], wantKey.Bytes()), "entry-under-the-value-the-document-holds")
	vObserve("entries", len(got))
}
