//go:build verif

package sequence

// C14 (thin): identifiers handed out by persisted sequences are never reused across a restart.

import (
	"context"
	"encoding/binary"

	"github.com/sourcenetwork/corekv"

	"github.com/sourcenetwork/defradb/internal/datastore"
	"github.com/sourcenetwork/defradb/internal/keys"
)

// vTxn: a datastore.Txn whose stores are kvmodels (only the system store is used here)
type vTxn struct {
	datastore.Txn
	system *vKV
}

func (t *vTxn) Systemstore() corekv.ReaderWriter { return t.system }

// VerifH_C14_NoReuse: a previous Sequence object hands out k1 values, then the node restarts (a new
// Sequence object is created over the same store) and hands out k2 more: all values are distinct and
// strictly increasing; the stored counter round-trips through its byte encoding.
func VerifH_C14_NoReuse() {
	sys := &vKV{}
	key := keys.CollectionIDSequenceKey{}
	if vBool("has-entry") {
		c := vU64("stored")
		vAssume(c < 1<<63) // no wrap-around within the horizon of the check
		var buf [8]byte
		binary.BigEndian.PutUint64(buf[:], c)
		sys.put(key.Bytes(), buf[:])
	}
	ctx := datastore.CtxSetTxn(context.Background(), &vTxn{system: sys})
	var handed []uint64
	s1, err := Get(ctx, key)
	vAssert(err == nil, "open-1")
	if err != nil {
		return
	}
	k1 := vChoose("k1", 4)
	for i := 0; i < k1; i++ {
		v, err := s1.Next(ctx)
		vAssert(err == nil, "next-1")
		handed = append(handed, v)
	}
	// restart: the in-memory object is gone, the store stays
	s2, err := Get(ctx, key)
	vAssert(err == nil, "open-2")
	if err != nil {
		return
	}
	k2 := 1 + vChoose("k2", 3)
	for i := 0; i < k2; i++ {
		v, err := s2.Next(ctx)
		vAssert(err == nil, "next-2")
		handed = append(handed, v)
	}
	vCover("restarted")
	for i := 0; i+1 < len(handed); i++ {
		vAssert(handed[i] < handed[i+1], "strictly-increasing-across-restart")
	}
	// what is stored is the last value handed out
	raw, ok := sys.peek(key.Bytes())
	vAssert(ok && len(raw) == 8, "stored")
	if ok && len(raw) == 8 {
		vAssert(binary.BigEndian.Uint64(raw) == handed[len(handed)-1], "stored-is-last-handed-out")
	}
	vObserve("last", handed[len(handed)-1])
}

// VerifH_C14_FaultPropagation (also serves C05.O1): a failing store operation makes Get/Next report an error
func VerifH_C14_FaultPropagation() {
	f := &vFaults{window: 8, max: 2}
	sys := &vKV{faults: f}
	key := keys.CollectionIDSequenceKey{}
	ctx := datastore.CtxSetTxn(context.Background(), &vTxn{system: sys})
	s, err := Get(ctx, key)
	if err == nil {
		_, err = s.Next(ctx)
	}
	if err == nil {
		_, err = s.Next(ctx)
	}
	vCover("ran")
	vAssert(vImplies(f.injected > 0, err != nil), "fault-propagates")
	vAssert(vImplies(f.injected == 0, err == nil), "no-fault-no-error")
}

// VerifH_C14_Reach — vacuity twin
func VerifH_C14_Reach() {
	sys := &vKV{}
	key := keys.CollectionIDSequenceKey{}
	ctx := datastore.CtxSetTxn(context.Background(), &vTxn{system: sys})
	s, err := Get(ctx, key)
	if err != nil {
		return
	}
	a, _ := s.Next(ctx)
	b, _ := s.Next(ctx)
	vCover("end")
	vAssert(a == b, "reach-twin")
}
