//go:build verif

package coreblock

// C04.O1/O2/O4 and C05.O1 on the real head-set code: heads.{Write,Replace,IsHead,List}, updateHeads,
// ProcessBlock, AddDelta's height rule, New's determinism.

import (
	"context"

	"github.com/ipfs/go-cid"
	cidlink "github.com/ipld/go-ipld-prime/linking/cid"
	"github.com/sourcenetwork/corekv"

	"github.com/sourcenetwork/defradb/client"
	"github.com/sourcenetwork/defradb/internal/core"
	"github.com/sourcenetwork/defradb/internal/core/crdt"
	"github.com/sourcenetwork/defradb/internal/datastore"
	"github.com/sourcenetwork/defradb/internal/keys"
)

type vTxn struct {
	datastore.Txn
	data, head *vKV
	bs         *vBS
}

func (t *vTxn) Datastore() corekv.ReaderWriter   { return t.data }
func (t *vTxn) Headstore() corekv.ReaderWriter   { return t.head }
func (t *vTxn) Blockstore() datastore.Blockstore { return t.bs }

// blockstore model: membership only
type vBS struct {
	datastore.Blockstore
	known  []cid.Cid
	faults *vFaults
}

func (b *vBS) Has(ctx context.Context, c cid.Cid) (bool, error) {
	if b.faults.hit() {
		return false, vErrInjected
	}
	for _, k := range b.known {
		if k == c {
			return true, nil
		}
	}
	return false, nil
}

func vFakeCid(rank, idx int) cid.Cid {
	mh := make([]byte, 34)
	mh[0], mh[1] = 0x12, 0x20
	mh[2], mh[3] = byte(rank), byte(idx)
	return cid.NewCidV1(cid.DagCBOR, mh)
}

const vDocID = "bae-verif-0"

var vCompKey = keys.DataStoreKey{CollectionShortID: 1, DocID: vDocID, FieldID: core.COMPOSITE_NAMESPACE}

type vDag struct {
	n       int
	parents [][]int
	height  []uint64
	cids    []cid.Cid
	blocks  []*Block
}

func (g *vDag) isAncestor(a, b int) bool {
	if a == b {
		return true
	}
	for _, p := range g.parents[b] {
		if g.isAncestor(a, p) {
			return true
		}
	}
	return false
}

// symbolic DAG with symbolic hash order; blocks are composite commits without field links, or with one
// field link when withLinks is set (the link target is a known block that is not a head of this head set)
func vMkDag(n int, withLinks bool, bs *vBS) *vDag {
	g := &vDag{n: n}
	rest := make([]int, n)
	for i := range rest {
		rest[i] = i
	}
	rank := make([]int, n)
	for r := 0; r < n; r++ {
		k := vChoose("hashorder", len(rest))
		rank[rest[k]] = r + 1
		rest = append(rest[:k:k], rest[k+1:]...)
	}
	for i := 0; i < n; i++ {
		var ps []int
		if i > 0 {
			p := vChoose("parent", i)
			ps = []int{p}
			if i > 1 && vChoose("second", 2) == 1 {
				q := vChoose("parent2", i-1)
				if q >= p {
					q++
				}
				vAssume(!g.isAncestor(q, p) && !g.isAncestor(p, q))
				ps = append(ps, q)
			}
		}
		g.parents = append(g.parents, ps)
		h := uint64(1)
		var heads []cid.Cid
		for _, p := range ps {
			if g.height[p]+1 > h {
				h = g.height[p] + 1
			}
			heads = append(heads, g.cids[p])
		}
		g.height = append(g.height, h)
		c := vFakeCid(rank[i], i)
		var links []DAGLink
		if withLinks {
			fc := vFakeCid(100+i, i)
			bs.known = append(bs.known, fc)
			links = []DAGLink{NewDAGLink("f", cidlink.Link{Cid: fc})}
		}
		delta := &crdt.DocCompositeDelta{DocID: []byte(vDocID), Priority: h, SchemaVersionID: "sv", Status: client.Active}
		g.cids = append(g.cids, c)
		g.blocks = append(g.blocks, New(delta, links, heads...))
		bs.known = append(bs.known, c)
	}
	return g
}

func (g *vDag) maximal(m []bool, i int) bool {
	if !m[i] {
		return false
	}
	for j := 0; j < g.n; j++ {
		if j != i && m[j] && g.isAncestor(i, j) {
			return false
		}
	}
	return true
}

func vEnv() (context.Context, *vTxn, *crdt.DocComposite) {
	txn := &vTxn{data: &vKV{}, head: &vKV{}, bs: &vBS{}}
	ctx := datastore.CtxSetTxn(context.Background(), txn)
	return ctx, txn, crdt.NewDocComposite(txn.data, "sv", vCompKey)
}

// VerifH_C04_UpdateHeads — O1, inductive step: from a head store holding exactly the maximal elements of an
// arbitrary downward-closed merged set M (heights stored), one updateHeads(b) with parents(b) ⊆ M, b ∉ M
// leaves exactly the maximal elements of M ∪ {b}, each with its height.
func VerifH_C04_UpdateHeads() {
	n := vConfInt("n")
	ctx, txn, comp := vEnv()
	g := vMkDag(n, vConfInt("links") != 0, txn.bs)
	// symbolic downward-closed merged set M and a commit b ∉ M whose parents are in M
	m := make([]bool, n)
	for i := 0; i < n; i++ {
		in := vChoose("merged", 2) == 1
		for _, p := range g.parents[i] {
			if in {
				vAssume(m[p])
			}
		}
		m[i] = in
	}
	b := vChoose("b", n)
	vAssume(!m[b])
	for _, p := range g.parents[b] {
		vAssume(m[p])
	}
	hs := NewHeadSet(txn.head, comp.HeadstorePrefix())
	for i := 0; i < n; i++ {
		if g.maximal(m, i) {
			vAssert(hs.Write(ctx, g.cids[i], g.height[i]) == nil, "setup")
		}
	}
	err := updateHeads(ctx, comp, g.blocks[b], cidlink.Link{Cid: g.cids[b]})
	vCover("updated")
	vAssert(err == nil, "no-error")
	m[b] = true
	list, maxH, err := hs.List(ctx)
	vAssert(err == nil, "list-no-error")
	want, wantMax := 0, uint64(0)
	for i := 0; i < n; i++ {
		isHead, err := hs.IsHead(ctx, g.cids[i])
		vAssert(err == nil, "ishead-no-error")
		vAssert(isHead == g.maximal(m, i), "heads-are-the-maximal-merged-commits")
		if g.maximal(m, i) {
			want++
			if g.height[i] > wantMax {
				wantMax = g.height[i]
			}
		}
	}
	vAssert(len(list) == want, "list-has-exactly-the-heads")
	vAssert(maxH == wantMax, "list-reports-the-greatest-height")
	for i := 0; i+1 < len(list); i++ {
		vAssert(list[i] != list[i+1], "no-head-listed-twice")
	}
	vObserve("heads", len(list))
}

// VerifH_C04_NewDeterministic — O4: New(delta, links, heads...) does not depend on the order in which the
// links and heads are passed
func VerifH_C04_NewDeterministic() {
	k := vConfInt("k")
	var cids []cid.Cid
	rest := make([]int, k)
	for i := range rest {
		rest[i] = i
	}
	rank := make([]int, k)
	for r := 0; r < k; r++ {
		j := vChoose("hashorder", len(rest))
		rank[rest[j]] = r + 1
		rest = append(rest[:j:j], rest[j+1:]...)
	}
	for i := 0; i < k; i++ {
		cids = append(cids, vFakeCid(rank[i], i))
	}
	perm := func(name string) []int {
		r := make([]int, k)
		for i := range r {
			r[i] = i
		}
		var p []int
		for len(r) > 0 {
			j := vChoose(name, len(r))
			p = append(p, r[j])
			r = append(r[:j:j], r[j+1:]...)
		}
		return p
	}
	mk := func(p []int) *Block {
		var heads []cid.Cid
		var links []DAGLink
		for _, i := range p {
			heads = append(heads, cids[i])
			links = append(links, NewDAGLink(string(rune('a'+i)), cidlink.Link{Cid: cids[i]}))
		}
		delta := &crdt.DocCompositeDelta{DocID: []byte(vDocID), Priority: 5, SchemaVersionID: "sv"}
		return New(delta, links, heads...)
	}
	b1, b2 := mk(perm("p1")), mk(perm("p2"))
	vCover("built")
	vAssert(len(b1.Heads) == k && len(b2.Heads) == k, "all-heads-kept")
	vAssert(len(b1.Links) == k && len(b2.Links) == k, "all-links-kept")
	for i := 0; i < k && i < len(b1.Heads) && i < len(b2.Heads); i++ {
		vAssert(b1.Heads[i].Cid == b2.Heads[i].Cid, "heads-order-independent-of-argument-order")
	}
	for i := 0; i < k && i < len(b1.Links) && i < len(b2.Links); i++ {
		vAssert(b1.Links[i].Name == b2.Links[i].Name && b1.Links[i].Cid == b2.Links[i].Cid, "links-order-independent-of-argument-order")
	}
}

// VerifH_C05_HeadFaults — C05.O1 for the head set and ProcessBlock/updateHeads: a failing store operation
// is reported. conf op: 0 ProcessBlock of a child of one head (Replace path), 1 ProcessBlock of a genesis
// block (leaf Write), 2 ProcessBlock of a block whose parent is a known non-head (new concurrent head),
// 3 heads.List
func VerifH_C05_HeadFaults() {
	ctx, txn, comp := vEnv()
	g := vMkDag(3, false, txn.bs) // c0; c1(c0) ; c2(c0|c1)
	hs := NewHeadSet(txn.head, comp.HeadstorePrefix())
	f := &vFaults{window: vConfInt("window"), max: 2}
	var err error
	link := func(i int) cidlink.Link { return cidlink.Link{Cid: g.cids[i]} }
	switch vConfInt("op") {
	case 0:
		vAssert(ProcessBlock(ctx, comp, g.blocks[0], link(0)) == nil, "setup")
		txn.head.faults, txn.data.faults, txn.bs.faults = f, f, f
		err = ProcessBlock(ctx, comp, g.blocks[1], link(1))
	case 1:
		txn.head.faults, txn.data.faults, txn.bs.faults = f, f, f
		err = ProcessBlock(ctx, comp, g.blocks[0], link(0))
	case 2:
		vAssert(ProcessBlock(ctx, comp, g.blocks[0], link(0)) == nil, "setup")
		vAssert(ProcessBlock(ctx, comp, g.blocks[1], link(1)) == nil, "setup")
		// c2 with parent c0 (a merged non-head): force that shape
		vAssume(len(g.parents[2]) == 1 && g.parents[2][0] == 0)
		txn.head.faults, txn.data.faults, txn.bs.faults = f, f, f
		err = ProcessBlock(ctx, comp, g.blocks[2], link(2))
	default:
		vAssert(hs.Write(ctx, g.cids[0], 1) == nil, "setup")
		vAssert(hs.Write(ctx, g.cids[1], 2) == nil, "setup")
		txn.head.faults = f
		_, _, err = hs.List(ctx)
	}
	txn.head.faults, txn.data.faults, txn.bs.faults = nil, nil, nil
	vCover("ran")
	vAssert(vImplies(f.injected > 0, err != nil), "fault-propagates")
	vAssert(vImplies(f.injected == 0, err == nil), "no-fault-no-error")
	vBound(f.count <= f.window, "window-covers-all-store-operations")
}

// VerifH_C04_Reach — vacuity twin
func VerifH_C04_Reach() {
	ctx, txn, comp := vEnv()
	g := vMkDag(2, false, txn.bs)
	hs := NewHeadSet(txn.head, comp.HeadstorePrefix())
	vAssert(hs.Write(ctx, g.cids[0], 1) == nil, "setup")
	err := updateHeads(ctx, comp, g.blocks[1], cidlink.Link{Cid: g.cids[1]})
	is, _ := hs.IsHead(ctx, g.cids[1])
	vCover("end")
	vAssert(err != nil || !is, "reach-twin")
}

// VerifH_C04_NamespaceIsolation — the heads reported for one field (or collection) are only that field's:
// head sets of two different field ids (decimal short ids, e.g. "2" and "20") over the same store do not see
// each other's heads
func VerifH_C04_NamespaceIsolation() {
	ids := []string{"2", "20", "21", "3", "C", "1", "10"}
	a, b := vChoose("a", len(ids)), vChoose("b", len(ids))
	vAssume(a != b)
	_, txn, _ := vEnv()
	ctx := context.Background()
	var ha, hb *heads
	if vConfInt("collection") != 0 {
		// collection-level head sets: short collection ids
		ca, cb := []uint32{1, 10, 2, 12, 3, 30, 7}[a], []uint32{1, 10, 2, 12, 3, 30, 7}[b]
		ha = NewHeadSet(txn.head, keys.NewHeadstoreColKey(ca))
		hb = NewHeadSet(txn.head, keys.NewHeadstoreColKey(cb))
	} else {
		ha = NewHeadSet(txn.head, keys.HeadstoreDocKey{DocID: vDocID, FieldID: ids[a]})
		hb = NewHeadSet(txn.head, keys.HeadstoreDocKey{DocID: vDocID, FieldID: ids[b]})
	}
	ca, cb := vFakeCid(1, 1), vFakeCid(2, 2)
	vAssert(ha.Write(ctx, ca, 3) == nil, "write")
	vAssert(hb.Write(ctx, cb, 7) == nil, "write")
	la, hgtA, err := ha.List(ctx)
	vCover("listed")
	vAssert(err == nil, "list-no-error")
	vAssert(len(la) == 1, "only-own-heads-listed")
	if len(la) >= 1 {
		vAssert(la[0] == ca, "own-head-listed")
	}
	vAssert(hgtA == 3, "height-of-own-heads-only")
	isH, err := ha.IsHead(ctx, cb)
	vAssert(err == nil && !isH, "foreign-head-is-not-a-head-here")
	vObserve("n", len(la))
}
