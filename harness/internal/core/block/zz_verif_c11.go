//go:build verif

package coreblock

// C11 — encrypted fields never leave the node in clear (writer side): the real AddDelta,
// determineBlockEncryption, encryptBlock and the encryption context/config logic, driven the way
// collection.save drives them (one AddDelta per written field), over a two-step history: create with an
// encryption config, then update without one (as collection.update runs).
//
// Inside symgo: a model cipher (injective, key-dependent, distinguishable from the plaintext), an injective
// codec and block tables; natively: real AES-GCM, dag-cbor and block stores.

import (
	"bytes"
	"context"

	"github.com/ipfs/go-cid"
	"github.com/ipld/go-ipld-prime"
	cidlink "github.com/ipld/go-ipld-prime/linking/cid"
	"github.com/sourcenetwork/corekv"
	"github.com/sourcenetwork/immutable"

	"github.com/sourcenetwork/defradb/internal/core"
	"github.com/sourcenetwork/defradb/internal/core/crdt"
	"github.com/sourcenetwork/defradb/internal/datastore"
	"github.com/sourcenetwork/defradb/internal/encryption"
	"github.com/sourcenetwork/defradb/internal/keys"
)

// ---- model cipher (symgo only; redirect targets of crypto.EncryptAES / DecryptAES) ----

func cEncryptAES(plain, key, ad []byte, prependNonce bool) ([]byte, []byte, error) {
	out := []byte{0xEE, key[0]}
	for _, b := range plain {
		out = append(out, b^0xA5)
	}
	return out, nil, nil
}

func cDecryptAES(nonce, cipherText, key, ad []byte) ([]byte, error) {
	if len(cipherText) < 2 || cipherText[0] != 0xEE || cipherText[1] != key[0] {
		return nil, corekv.ErrNotFound
	}
	out := make([]byte, 0, len(cipherText)-2)
	for _, b := range cipherText[2:] {
		out = append(out, b^0xA5)
	}
	return out, nil
}

// redirect target of encryption.generateEncryptionKey: a key that depends on (doc, field)
func cGenerateKey(docID string, fieldName immutable.Option[string]) ([]byte, error) {
	k := make([]byte, 32)
	k[0] = 'K'
	if fieldName.HasValue() {
		k[0] = fieldName.Value()[0]
	}
	return k, nil
}

// ---- stores ----

type cStore struct {
	datastore.Blockstore
	name string
	cids []cid.Cid
	objs []any
}

type cIPLD struct {
	datastore.IPLDStorage
	s *cStore
}

func (s *cStore) AsIPLDStorage() datastore.IPLDStorage { return cIPLD{s: s} }
func (s *cStore) Has(ctx context.Context, c cid.Cid) (bool, error) {
	for _, k := range s.cids {
		if k == c {
			return true, nil
		}
	}
	return false, nil
}

// the "bytes" of a stored object are the key string of its CID (mapped back by the redirected decoders)
func (i cIPLD) Get(ctx context.Context, key string) ([]byte, error) {
	for _, k := range i.s.cids {
		if k.KeyString() == key {
			return []byte(key), nil
		}
	}
	return nil, corekv.ErrNotFound
}

type cTxn struct {
	datastore.Txn
	data, head *vKV
	bs, enc    datastore.Blockstore
	root       *vKV // native mode: the store beneath the block store and the key store
}

func (t *cTxn) Datastore() corekv.ReaderWriter   { return t.data }
func (t *cTxn) Headstore() corekv.ReaderWriter   { return t.head }
func (t *cTxn) Blockstore() datastore.Blockstore { return t.bs }
func (t *cTxn) Encstore() datastore.Blockstore   { return t.enc }

var cCur *cTxn
var cNext int

// cLowRank: the next block stored through cPutBlock gets a CID that sorts before all others (symgo only)
var cLowRank bool

func cPutBlock(ctx context.Context, bs datastore.Blockstore, block interface{ GenerateNode() ipld.Node }) (cidlink.Link, error) {
	st := bs.(*cStore)
	cNext++
	c := vFakeCid(cNext, cNext)
	if cLowRank {
		c = vFakeCid(0, cNext)
		cLowRank = false
	}
	st.cids = append(st.cids, c)
	st.objs = append(st.objs, block)
	return cidlink.Link{Cid: c}, nil
}

func cLookup(st datastore.Blockstore, raw []byte) any {
	s := st.(*cStore)
	for i, k := range s.cids {
		if bytes.Equal([]byte(k.KeyString()), raw) {
			return s.objs[i]
		}
	}
	return nil
}

func cGetFromBytes(raw []byte) (*Block, error) {
	if b, ok := cLookup(cCur.bs, raw).(*Block); ok {
		return b, nil
	}
	return nil, corekv.ErrNotFound
}

func cGetEncryptionBlockFromBytes(raw []byte) (*Encryption, error) {
	if b, ok := cLookup(cCur.enc, raw).(*Encryption); ok {
		return b, nil
	}
	return nil, corekv.ErrNotFound
}

const cDocID = "bae-verif-enc"

var cFields = []string{"f", "g"}

func cNewTxn() *cTxn {
	t := &cTxn{data: &vKV{}, head: &vKV{}}
	if vSymbolic() {
		t.bs, t.enc = &cStore{name: "blocks"}, &cStore{name: "enc"}
		cNext = 0
	} else {
		root := &vKV{}
		t.bs, t.enc = datastore.BlockstoreFrom(root), datastore.EncstoreFrom(root)
		t.root = root
	}
	cCur = t
	return t
}

// the stored block a link points to
func cStoredBlock(t *cTxn, lnk cidlink.Link) *Block {
	if vSymbolic() {
		s := t.bs.(*cStore)
		for i, k := range s.cids {
			if k == lnk.Cid {
				return s.objs[i].(*Block)
			}
		}
		return nil
	}
	blk, err := t.bs.Get(context.Background(), lnk.Cid)
	if err != nil {
		return nil
	}
	b, err := GetFromBytes(blk.RawData())
	if err != nil {
		return nil
	}
	return b
}

func cEncStoreHas(t *cTxn, c cid.Cid) bool {
	ok, _ := t.enc.Has(context.Background(), c)
	return ok
}

// VerifH_C11_History — conf: doc (1: document-level encryption), fcfg (bit mask of the fields named in the
// field-level list: bit0 = f, bit1 = g), class (0: exclude "field covered by the creation config but first
// written by the update", the class of known finding C11-late-field-in-clear; 1: only that; 2: unrestricted)
func VerifH_C11_History() {
	docEnc := vConfInt("doc") != 0
	fcfg := vConfInt("fcfg")
	var encFields []string
	for i, f := range cFields {
		if fcfg&(1<<uint(i)) != 0 {
			encFields = append(encFields, f)
		}
	}
	covered := func(i int) bool { return docEnc || fcfg&(1<<uint(i)) != 0 }
	t := cNewTxn()
	base := datastore.CtxSetTxn(context.Background(), t)
	createCtx := encryption.SetContextConfigFromParams(base, docEnc, encFields)
	updateCtx, _ := encryption.EnsureContextWithEncryptor(base)
	// which fields each step writes
	var w1, w2 [2]bool
	for i := range cFields {
		w1[i] = vChoose("create-writes", 2) == 1
		w2[i] = vChoose("update-writes", 2) == 1
	}
	late := false
	for i := range cFields {
		if covered(i) && !w1[i] && w2[i] {
			late = true
		}
	}
	switch vConfInt("class") {
	case 0:
		vAssume(!late)
	case 1:
		vAssume(late)
	}
	var writesSoFar [2]uint64
	var lastHead [2]cid.Cid
	keyLost := vConfInt("keyloss") != 0
	step := func(ctx context.Context, writes [2]bool, tag string, label string) {
		for i, f := range cFields {
			if !writes[i] {
				continue
			}
			p0, p1 := vU8(tag+f), vU8(tag+f)
			payload := []byte{p0, p1}
			reg := crdt.NewLWW(t.data, "sv1", keys.DataStoreKey{CollectionShortID: 1, DocID: cDocID, FieldID: string(rune('2' + i))}, f)
			delta := &crdt.LWWDelta{DocID: []byte(cDocID), FieldName: f, SchemaVersionID: "sv1", Data: payload}
			lnk, evBytes, err := AddDelta(ctx, reg, delta)
			if keyLost && tag == "u." {
				// the key blocks are gone: the write may be refused, what it must not do is store the value in clear
				if err != nil {
					vCover("refused-without-key")
					continue
				}
			} else {
				vAssert(err == nil, "add-delta-no-error")
			}
			if err != nil {
				return
			}
			stored := cStoredBlock(t, lnk)
			vAssert(stored != nil, "block-stored")
			if stored == nil {
				return
			}
			// C04.O2: a new commit's height is one more than the greatest height among its parents, its parents
			// are the previous heads, and afterwards it is the only head
			writesSoFar[i]++
			if vConfInt("c04") != 0 { // (asserted only when the harness runs for C04)
				vAssert(stored.Delta.GetPriority() == writesSoFar[i], "height-is-one-more-than-parents")
				if writesSoFar[i] == 1 {
					vAssert(len(stored.Heads) == 0, "first-commit-has-no-parents")
				} else {
					vAssert(len(stored.Heads) == 1 && stored.Heads[0].Cid == lastHead[i], "parents-are-the-previous-heads")
				}
				hl, hmax, herr := NewHeadSet(t.head, reg.HeadstorePrefix()).List(ctx)
				vAssert(herr == nil && len(hl) == 1 && hl[0] == lnk.Cid && hmax == writesSoFar[i], "new-commit-is-the-only-head")
			}
			lastHead[i] = lnk.Cid
			data := stored.Delta.GetData()
			if covered(i) {
				vAssert(!bytes.Equal(data, payload), label+"-stored-block-is-not-plaintext")
				vAssert(stored.Encryption != nil, label+"-stored-block-carries-encryption-link")
				if stored.Encryption != nil && !(keyLost && tag == "u.") {
					vAssert(cEncStoreHas(t, stored.Encryption.Cid), "key-block-in-the-key-store")
					in, _ := t.bs.Has(context.Background(), stored.Encryption.Cid)
					vAssert(!in, "key-block-not-in-the-shared-block-store")
				}
				// (scanning ~200 symbolic bytes forks per position: inside symgo the event bytes are the
				// canonical serialisation of the stored block, already checked above; natively the real bytes are scanned)
				if !vSymbolic() {
					vAssert(!bytes.Contains(evBytes, payload), "native-only:"+label+"-event-bytes-do-not-contain-plaintext")
				}
			} else {
				vAssert(bytes.Equal(data, payload), "uncovered-field-stored-as-written")
			}
			// the local merge uses the plaintext: the node reads back exactly what was written
			got, ok := t.data.peek(keys.DataStoreKey{CollectionShortID: 1, DocID: cDocID, FieldID: string(rune('2' + i))}.WithValueFlag().Bytes())
			vAssert(ok && bytes.Equal(got, payload), "local-read-back")
		}
		// the composite commit of the step
		comp := crdt.NewDocComposite(t.data, "sv1", keys.DataStoreKey{CollectionShortID: 1, DocID: cDocID, FieldID: core.COMPOSITE_NAMESPACE})
		_, _, err := AddDelta(ctx, comp, comp.Delta())
		if !(keyLost && tag == "u.") {
			vAssert(err == nil, "composite-add-delta-no-error")
		}
	}
	step(createCtx, w1, "c.", "create")
	if keyLost {
		// conf keyloss: the key store is lost between the two writes (restored without it, or a lookup that misses)
		if es, ok := t.enc.(*cStore); ok {
			es.cids, es.objs = nil, nil
		} else {
			// natively: every entry under the key store's prefix of the root store
			var keep []vKVEnt
			for _, e := range t.root.ents {
				if !bytes.HasPrefix(e.k, []byte("/db/enc")) {
					keep = append(keep, e)
				}
			}
			t.root.ents = keep
		}
	}
	step(updateCtx, w2, "u.", "update")
	vCover("history")
}

// VerifH_C11_MixedHeads — a field whose Merkle clock has two heads, one written under encryption on this node and one
// plaintext block merged from a peer that never had the key (it starts its own history of the field), in either
// order of their CIDs: the next local write still inherits the encryption.
// conf: doc (1: document-level encryption, 0: field-level on f)
func VerifH_C11_MixedHeads() {
	docEnc := vConfInt("doc") != 0
	var encFields []string
	if !docEnc {
		encFields = []string{"f"}
	}
	t := cNewTxn()
	base := datastore.CtxSetTxn(context.Background(), t)
	createCtx := encryption.SetContextConfigFromParams(base, docEnc, encFields)
	updateCtx, _ := encryption.EnsureContextWithEncryptor(base)
	dsKey := keys.DataStoreKey{CollectionShortID: 1, DocID: cDocID, FieldID: "2"}
	reg := crdt.NewLWW(t.data, "sv1", dsKey, "f")
	s0, s1 := vU8("secret"), vU8("secret")
	a1, _, err := AddDelta(createCtx, reg, &crdt.LWWDelta{DocID: []byte(cDocID), FieldName: "f", SchemaVersionID: "sv1", Data: []byte{s0, s1}})
	vAssert(err == nil, "add-delta-no-error")
	if err != nil {
		return
	}
	// the peer's plaintext root block of the same field, stored and registered as a head the way ProcessBlock does
	peerFirst := vBool("peer-head-sorts-first")
	// (the peer's block may sit at any height of the peer's own history of the field)
	peerHeight := uint64(1 + vChoose("peer-height", 3))
	var b1 cidlink.Link
	for k := 0; k < 256; k++ {
		if vSymbolic() {
			cLowRank = peerFirst
		}
		peer := New(&crdt.LWWDelta{DocID: []byte(cDocID), FieldName: "f", SchemaVersionID: "sv1", Priority: peerHeight, Data: []byte{'p', byte(k)}}, nil)
		b1, err = putBlock(base, t.bs, peer)
		vAssert(err == nil, "peer-block-stored")
		if err != nil {
			return
		}
		// natively the peer's value is searched until the real CIDs stand in the wanted order
		if vSymbolic() || (b1.Cid.KeyString() < a1.Cid.KeyString()) == peerFirst {
			break
		}
	}
	hs := NewHeadSet(t.head, reg.HeadstorePrefix())
	vAssert(hs.Write(base, b1.Cid, peerHeight) == nil, "peer-head-written")
	hl, _, herr := hs.List(base)
	vAssert(herr == nil && len(hl) == 2, "two-heads")
	vObserve("first-head-is-peer", len(hl) == 2 && hl[0] == b1.Cid)
	// the next local write
	n0, n1 := vU8("secret"), vU8("secret")
	payload := []byte{n0, n1}
	lnk, evBytes, err := AddDelta(updateCtx, reg, &crdt.LWWDelta{DocID: []byte(cDocID), FieldName: "f", SchemaVersionID: "sv1", Data: payload})
	vAssert(err == nil, "add-delta-no-error")
	if err != nil {
		return
	}
	stored := cStoredBlock(t, lnk)
	vAssert(stored != nil, "block-stored")
	if stored == nil {
		return
	}
	vCover("mixed")
	if vConfInt("c04") != 0 {
		// C04.O2 with more than one head: the parents are the previous heads, the height is one more than the greatest
		// height among them, and afterwards the new commit is the only head
		vAssert(len(stored.Heads) == 2 && stored.Heads[0].Cid != stored.Heads[1].Cid &&
			(stored.Heads[0].Cid == a1.Cid || stored.Heads[0].Cid == b1.Cid) && (stored.Heads[1].Cid == a1.Cid || stored.Heads[1].Cid == b1.Cid),
			"parents-are-the-previous-heads")
		vAssert(stored.Delta.GetPriority() == peerHeight+1, "height-is-one-more-than-the-greatest-parent-height")
		nl, nmax, nerr := hs.List(base)
		vAssert(nerr == nil && len(nl) == 1 && nl[0] == lnk.Cid && nmax == peerHeight+1, "new-commit-is-the-only-head")
		return
	}
	vBound(len(stored.Heads) == 2, "scenario-has-two-heads")
	vAssert(!bytes.Equal(stored.Delta.GetData(), payload), "mixed-heads-stored-block-is-not-plaintext")
	vAssert(stored.Encryption != nil, "mixed-heads-stored-block-carries-encryption-link")
	if !vSymbolic() {
		vAssert(!bytes.Contains(evBytes, payload), "native-only:mixed-heads-event-bytes-do-not-contain-plaintext")
	}
}

// VerifH_C11_Reach — vacuity twin
func VerifH_C11_Reach() {
	t := cNewTxn()
	base := datastore.CtxSetTxn(context.Background(), t)
	ctx := encryption.SetContextConfigFromParams(base, true, nil)
	reg := crdt.NewLWW(t.data, "sv1", keys.DataStoreKey{CollectionShortID: 1, DocID: cDocID, FieldID: "2"}, "f")
	p := vU8("p")
	lnk, _, err := AddDelta(ctx, reg, &crdt.LWWDelta{DocID: []byte(cDocID), FieldName: "f", SchemaVersionID: "sv1", Data: []byte{p, 1}})
	if err != nil {
		return
	}
	stored := cStoredBlock(t, lnk)
	vCover("end")
	vAssert(stored == nil || stored.Encryption == nil, "reach-twin")
}
