//go:build verif

package coreblock

// C12 — commit signatures authenticate content and author (protocol logic): the real signBlock,
// VerifyBlockSignature, VerifyBlockSignatureWithKey, getBlockBytesToSign, loadSignatureBlock,
// getPublicKeyFromSignature, verifySignature.
//
// Inside symgo: ideal signatures (Sig(sk,m) is valid exactly for pub(sk) and m) and an injective codec
// (marshalNode is a canonical serialisation); natively: real ed25519 / secp256k1 keys, dag-cbor, blockstore.

import (
	"bytes"
	"context"

	"github.com/ipfs/go-cid"
	"github.com/ipld/go-ipld-prime"
	"github.com/ipld/go-ipld-prime/datamodel"
	"github.com/ipld/go-ipld-prime/linking"
	cidlink "github.com/ipld/go-ipld-prime/linking/cid"
	"github.com/sourcenetwork/immutable"

	"github.com/sourcenetwork/defradb/acp/identity"
	"github.com/sourcenetwork/defradb/client"
	"github.com/sourcenetwork/defradb/crypto"
	"github.com/sourcenetwork/defradb/internal/core/crdt"
	"github.com/sourcenetwork/defradb/internal/datastore"
)

// ---- ideal keys (symgo only) ----

type sPub struct {
	crypto.PublicKey
	id  byte
	typ crypto.KeyType
}

func (k sPub) String() string       { return "pub-" + string(rune('a'+k.id)) }
func (k sPub) Type() crypto.KeyType { return k.typ }
func (k sPub) Verify(data []byte, sig []byte) (bool, error) {
	return len(sig) == 1+len(data) && sig[0] == k.id && bytes.Equal(sig[1:], data), nil
}

type sPriv struct {
	crypto.PrivateKey
	id  byte
	typ crypto.KeyType
}

func (k sPriv) Type() crypto.KeyType        { return k.typ }
func (k sPriv) GetPublic() crypto.PublicKey { return sPub{id: k.id, typ: k.typ} }
func (k sPriv) Sign(m []byte) ([]byte, error) {
	return append([]byte{k.id}, m...), nil
}

type sIdent struct {
	identity.FullIdentity
	priv sPriv
}

func (i sIdent) PrivateKey() crypto.PrivateKey { return i.priv }
func (i sIdent) PublicKey() crypto.PublicKey   { return i.priv.GetPublic() }

// redirect target of crypto.PublicKeyFromString inside symgo
func sPublicKeyFromString(keyType crypto.KeyType, s string) (crypto.PublicKey, error) {
	if len(s) == 5 && s[:4] == "pub-" {
		return sPub{id: s[4] - 'a', typ: keyType}, nil
	}
	return nil, crypto.ErrUnsupportedPrivKeyType
}

// ---- block table for signature blocks (symgo only) ----

var sTabCids []cid.Cid
var sTabObjs []any

type sNode struct {
	datamodel.Node
	obj any
}

func sPutBlock(ctx context.Context, bs datastore.Blockstore, block interface{ GenerateNode() ipld.Node }) (cidlink.Link, error) {
	c := vFakeCid(50+len(sTabCids), len(sTabCids))
	sTabCids = append(sTabCids, c)
	sTabObjs = append(sTabObjs, block)
	return cidlink.Link{Cid: c}, nil
}

func sLoad(lsys *linking.LinkSystem, lc linking.LinkContext, lnk datamodel.Link, np datamodel.NodePrototype) (datamodel.Node, error) {
	c := lnk.(cidlink.Link).Cid
	for i := range sTabCids {
		if sTabCids[i] == c {
			return sNode{obj: sTabObjs[i]}, nil
		}
	}
	return nil, crypto.ErrSignatureVerification
}

func sGetSignatureBlockFromNode(nd ipld.Node) (*Signature, error) {
	s, ok := nd.(sNode).obj.(*Signature)
	if !ok {
		return nil, crypto.ErrSignatureVerification
	}
	return s, nil
}

type sEnv struct {
	ctx   context.Context
	bs    datastore.Blockstore
	lsys  *linking.LinkSystem
	ident identity.FullIdentity
	other crypto.PublicKey
}

func sNewEnv(keyType int) *sEnv {
	e := &sEnv{}
	kt := crypto.KeyTypeEd25519
	if keyType == 1 {
		kt = crypto.KeyTypeSecp256k1
	}
	if vSymbolic() {
		sTabCids, sTabObjs = nil, nil
		e.ident = sIdent{priv: sPriv{id: 0, typ: kt}}
		e.other = sPub{id: 1, typ: kt}
		e.lsys = &linking.LinkSystem{}
	} else {
		id, err := identity.Generate(kt)
		if err != nil {
			panic("identity.Generate")
		}
		e.ident = id
		o, err := crypto.GenerateKey(kt)
		if err != nil {
			panic("GenerateKey")
		}
		e.other = o.GetPublic()
		e.bs = datastore.BlockstoreFrom(&vKV{})
		ls := cidlink.DefaultLinkSystem()
		ls.SetReadStorage(e.bs.AsIPLDStorage())
		e.lsys = &ls
	}
	e.ctx = identity.WithContext(context.Background(), immutable.Some[identity.Identity](e.ident))
	return e
}

func sMkBlock(kind int, prio uint64, data byte) *Block {
	var delta crdt.CRDT
	switch kind {
	case 0:
		delta = crdt.CRDT{DocCompositeDelta: &crdt.DocCompositeDelta{DocID: []byte("bae-doc"), Priority: prio, SchemaVersionID: "sv1", Status: client.Active}}
	default:
		delta = crdt.CRDT{LWWDelta: &crdt.LWWDelta{DocID: []byte("bae-doc"), FieldName: "name", Priority: prio, SchemaVersionID: "sv1", Data: []byte{data, 7}}}
	}
	b := &Block{Delta: delta}
	b.Heads = []cidlink.Link{{Cid: vFakeCid(1, 1)}}
	b.Links = []DAGLink{NewDAGLink("name", cidlink.Link{Cid: vFakeCid(2, 2)})}
	enc := cidlink.Link{Cid: vFakeCid(3, 3)}
	b.Encryption = &enc
	return b
}

// VerifH_C12_SignVerify — conf: key (0 ed25519, 1 secp256k1), kind (0 composite, 1 field), tamper (-1 none, else which
// field is altered after signing)
func VerifH_C12_SignVerify() {
	e := sNewEnv(vConfInt("key"))
	kind := vConfInt("kind")
	prio := vU64("prio")
	vAssume(prio >= 1 && prio < 1000)
	data := vU8("data")
	b := sMkBlock(kind, prio, data)
	err := signBlock(e.ctx, e.bs, b)
	vAssert(err == nil, "sign-no-error")
	if err != nil {
		return
	}
	// O4: which blocks are signed — composites and the first block of a field
	// document-level commits and the first commit of a field carry their own signature (later field commits
	// are authenticated through the signed composite that links them by content hash)
	mustSign := kind == 0 || prio <= 1
	vAssert(vImplies(mustSign, b.Signature != nil), "composite-and-first-field-commits-are-signed")
	if b.Signature == nil {
		ok, err := VerifyBlockSignature(b, e.lsys)
		vAssert(!ok && err == nil, "unsigned-block-reports-no-signature")
		vCover("unsigned")
		return
	}
	tamper := vConfInt("tamper")
	if tamper >= 0 {
		// the genuine commit is verified first: a receiver has usually seen it before a forged commit arrives that
		// carries the same signature link
		okH, errH := VerifyBlockSignature(b, e.lsys)
		vAssert(okH && errH == nil, "honest-block-verifies")
	}
	switch tamper {
	case 0: // delta data / status
		if kind == 1 {
			nb := vU8("newdata")
			vAssume(nb != data)
			b.Delta.LWWDelta.Data[0] = nb
		} else {
			b.Delta.DocCompositeDelta.Status = client.Deleted
		}
	case 1: // priority
		np := vU64("newprio")
		vAssume(np != prio)
		if kind == 1 {
			b.Delta.LWWDelta.Priority = np
		} else {
			b.Delta.DocCompositeDelta.Priority = np
		}
	case 2: // doc id
		if kind == 1 {
			b.Delta.LWWDelta.DocID = []byte("bae-dox")
		} else {
			b.Delta.DocCompositeDelta.DocID = []byte("bae-dox")
		}
	case 3: // schema version
		if kind == 1 {
			b.Delta.LWWDelta.SchemaVersionID = "sv2"
		} else {
			b.Delta.DocCompositeDelta.SchemaVersionID = "sv2"
		}
	case 4: // a parent replaced
		b.Heads = []cidlink.Link{{Cid: vFakeCid(9, 9)}}
	case 5: // a parent added
		b.Heads = append(b.Heads, cidlink.Link{Cid: vFakeCid(9, 9)})
	case 6: // parents removed
		b.Heads = nil
	case 7: // link target replaced
		b.Links = []DAGLink{NewDAGLink("name", cidlink.Link{Cid: vFakeCid(9, 9)})}
	case 8: // link name replaced
		b.Links = []DAGLink{NewDAGLink("other", cidlink.Link{Cid: vFakeCid(2, 2)})}
	case 9: // links removed
		b.Links = nil
	case 10: // encryption link replaced
		enc := cidlink.Link{Cid: vFakeCid(9, 9)}
		b.Encryption = &enc
	case 11: // encryption link removed
		b.Encryption = nil
	}
	ok, err := VerifyBlockSignature(b, e.lsys)
	vCover("verified")
	vAssert(ok, "signature-present")
	if tamper < 0 {
		vAssert(err == nil, "honest-block-verifies")
		ok2, err2 := VerifyBlockSignatureWithKey(b, e.lsys, e.ident.PublicKey())
		vAssert(ok2 && err2 == nil, "verifies-under-the-signer-key")
		_, err3 := VerifyBlockSignatureWithKey(b, e.lsys, e.other)
		vAssert(err3 != nil, "fails-under-any-other-key")
	} else {
		vAssert(err != nil, "tampered-block-fails-verification")
		_, err2 := VerifyBlockSignatureWithKey(b, e.lsys, e.ident.PublicKey())
		vAssert(err2 != nil, "tampered-block-fails-verification-with-key")
	}
	vObserve("verr", err != nil)
}

// VerifH_C12_Reach — vacuity twin
func VerifH_C12_Reach() {
	e := sNewEnv(0)
	b := sMkBlock(0, 3, 1)
	err := signBlock(e.ctx, e.bs, b)
	if err != nil || b.Signature == nil {
		return
	}
	_, verr := VerifyBlockSignature(b, e.lsys)
	vCover("end")
	vAssert(verr != nil, "reach-twin")
}
