//go:build verif

package crdt

// C02 / C04 — the nonce of counter increments: an increment of a document that already exists carries a fresh random
// nonce (two nodes issuing the same increment concurrently must produce two distinct commits, or one of them is lost on
// merge), whether or not the counter field has a value yet; the creating write carries nonce 0 (the genesis commit is
// reproducible).

import (
	"context"
	"crypto/rand"
	"io"

	"github.com/sourcenetwork/defradb/client"
	"github.com/sourcenetwork/defradb/internal/db/base"
)

// randomness consulted so far: an intrinsic inside symgo; natively crypto/rand.Reader is wrapped by a counting reader
var nReads int

type nCountingReader struct{ r io.Reader }

func (c nCountingReader) Read(p []byte) (int, error) {
	nReads++
	return c.r.Read(p)
}

func vRandCount() int {
	if _, ok := rand.Reader.(nCountingReader); !ok {
		rand.Reader = nCountingReader{r: rand.Reader}
	}
	return nReads
}

// redirect target of (client.FieldValue).Bytes inside the solver run
func nFieldValueBytes(v client.FieldValue) ([]byte, error) { return []byte{0x05}, nil }

// VerifH_C02_CounterNonce — the document exists or not, the counter has a value or not (both inputs)
func VerifH_C02_CounterNonce() {
	s := &vKV{}
	docExists, hasValue := vBool("document-exists"), vBool("counter-has-a-value")
	vAssume(vImplies(hasValue, docExists))
	if docExists {
		s.put(vDocKey2.ToPrimaryDataStoreKey().Bytes(), []byte{base.ObjectMarker})
	}
	if hasValue {
		s.put(vDocKey2.WithValueFlag().Bytes(), []byte{0x1b, 0, 0, 0, 0, 0, 0, 0, 7})
	}
	c := NewCounter(s, "sv", vDocKey2, "c", true, client.FieldKind_NILLABLE_INT)
	before := vRandCount()
	fv := client.NewFieldValue(client.PN_COUNTER, client.NewNormalInt(5))
	d, err := c.Delta(context.Background(), &DocField{DocID: vDocKey2.DocID, FieldName: "c", FieldValue: fv})
	used := vRandCount() - before
	vCover("made")
	vAssert(err == nil, "delta-no-error")
	if err != nil {
		return
	}
	cd, ok := d.(*CounterDelta)
	vAssert(ok, "counter-delta")
	if !ok {
		return
	}
	if docExists {
		vAssert(used > 0, "increment-of-an-existing-document-carries-a-fresh-nonce")
	} else {
		vAssert(used == 0 && cd.Nonce == 0, "creating-write-is-reproducible")
	}
	vObserve("random", used > 0)
}
