//go:build verif

package crdt

// C01.O1–O3 / C02 (kernel level): merge algebra of the register, counter and composite CRDTs on the real
// Merge functions over a key-value model.

import (
	"bytes"
	"context"

	"github.com/fxamacker/cbor/v2"

	"github.com/sourcenetwork/defradb/client"
	"github.com/sourcenetwork/defradb/internal/db/base"
	"github.com/sourcenetwork/defradb/internal/keys"
)

var vDocKey = keys.DataStoreKey{CollectionShortID: 1, DocID: "bae-0123456789abcdef", FieldID: "1"}
var vDocKey2 = keys.DataStoreKey{CollectionShortID: 1, DocID: "bae-0123456789abcdef", FieldID: "2"}
var vCompKey = keys.DataStoreKey{CollectionShortID: 1, DocID: "bae-0123456789abcdef", FieldID: "C"}

// VerifH_Overrides: the global overrides given to the engine equal the real values (native only matters)
func VerifH_Overrides() {
	vAssert(bytes.Equal(client.CborNil, []byte{0xf6}), "CborNil-override")
	vObserve("cbornil", client.CborNil)
}

type vLWWOp struct {
	data []byte
	prio uint64
}

func vPayload(name string, maxLen int) []byte {
	n := 1 + vChoose(name+".len", maxLen)
	b := make([]byte, n)
	for i := range b {
		b[i] = vU8(name + ".b")
	}
	return b
}

func vMkLWWOp(name string, maxLen int) vLWWOp {
	op := vLWWOp{data: vPayload(name, maxLen), prio: vU64(name + ".prio")}
	vAssume(vAnd(op.prio >= 1, op.prio < 300)) // priorities are DAG heights
	return op
}

// (prio, bytes) lexicographic maximum
func vLWWBetter(a, b vLWWOp) bool {
	return vOr(a.prio > b.prio, vAnd(a.prio == b.prio, bytes.Compare(a.data, b.data) > 0))
}

// observable register state: (value bytes or absent) under the live or deleted prefix, priority
func vRegValue(s *vKV, key keys.DataStoreKey, deleted bool) ([]byte, bool) {
	k := key.WithValueFlag()
	if deleted {
		k = k.WithDeletedFlag()
	}
	return s.peek(k.Bytes())
}

func vApplyLWW(s *vKV, op vLWWOp) error {
	r := NewLWW(s, "sv", vDocKey, "f")
	return r.Merge(context.Background(), &LWWDelta{Data: op.data, Priority: op.prio})
}

func vApplyDelete(s *vKV) error {
	c := NewDocComposite(s, "sv", vCompKey)
	return c.Merge(context.Background(), c.DeleteDelta())
}

func vApplyActive(s *vKV) error {
	c := NewDocComposite(s, "sv", vCompKey)
	return c.Merge(context.Background(), c.Delta())
}

// VerifH_C01_LWW — O1: from a reachable register state, two writes merged in both orders leave the same
// store, never fail, and the register holds the (priority, payload) maximum; a null payload wins like any other.
// conf: pre (0: empty register, 1: one earlier write d0), deleted (document deleted before the merges), maxlen
// class: 0 unrestricted; 1 = exclude ties between a null and a non-null payload (class of finding C01-lww-null-tie);
// 2 = only such ties
func VerifH_C01_LWW() {
	maxLen := vConfInt("maxlen")
	s1 := &vKV{}
	var ops []vLWWOp
	vAssert(vApplyActive(s1) == nil, "setup-active")
	if vConfInt("pre") == 1 {
		d0 := vMkLWWOp("d0", maxLen)
		ops = append(ops, d0)
		vAssert(vApplyLWW(s1, d0) == nil, "setup-d0")
	}
	deleted := vConfInt("deleted") == 1
	if deleted {
		vAssert(vApplyDelete(s1) == nil, "setup-delete")
	}
	d1, d2 := vMkLWWOp("d1", maxLen), vMkLWWOp("d2", maxLen)
	ops = append(ops, d1, d2)
	// class split
	nullTie := false
	for i := range ops {
		for j := range ops {
			if i != j {
				nullTie = vOr(nullTie, vAnd(ops[i].prio == ops[j].prio,
					vAnd(bytes.Equal(ops[i].data, client.CborNil), !bytes.Equal(ops[j].data, client.CborNil))))
			}
		}
	}
	switch vConfInt("class") {
	case 1:
		vAssume(!nullTie)
	case 2:
		vAssume(nullTie)
	}
	s2 := s1.clone()
	e11, e12 := vApplyLWW(s1, d1), vApplyLWW(s1, d2)
	e21, e22 := vApplyLWW(s2, d2), vApplyLWW(s2, d1)
	vCover("merged")
	vAssert(vAnd(vAnd(e11 == nil, e12 == nil), vAnd(e21 == nil, e22 == nil)), "merge-never-fails")
	vAssert(vKVEqual(s1, s2), "commutes")
	// idempotent
	s3 := s1.clone()
	vAssert(vApplyLWW(s3, d1) == nil, "remerge-no-error")
	vAssert(vApplyLWW(s3, d2) == nil, "remerge-no-error")
	vAssert(vKVEqual(s1, s3), "idempotent")
	// the register holds the maximum
	best := ops[0]
	for _, o := range ops[1:] {
		if vLWWBetter(o, best) {
			best = o
		}
	}
	val, has := vRegValue(s1, vDocKey, deleted)
	if bytes.Equal(best.data, client.CborNil) {
		vAssert(!has, "null-winner-clears-value")
	} else {
		vAssert(has && bytes.Equal(val, best.data), "register-holds-maximum")
	}
	_, other := vRegValue(s1, vDocKey, !deleted)
	vAssert(!other, "no-value-under-the-other-prefix")
	p, err := getPriority(context.Background(), s1, vDocKey)
	vAssert(err == nil && p == best.prio, "priority-is-maximum")
	vObserve("has", has)
	vObserve("val", val)
}

// ---- counters ----

func vCborInt(x int64) []byte {
	b, err := cbor.Marshal(x)
	if err != nil {
		panic("cbor")
	}
	return b
}

func vCounterValue(s *vKV, deleted bool) (int64, bool) {
	k := vDocKey2.WithValueFlag()
	if deleted {
		k = k.WithDeletedFlag()
	}
	raw, ok := s.peek(k.Bytes())
	if !ok {
		return 0, false
	}
	var v int64
	if err := cbor.Unmarshal(raw, &v); err != nil {
		return 0, false
	}
	return v, true
}

// VerifH_C01_CounterInt — O2: int counters: both orders give cur + a + b (wrapping), never fail for
// admissible increments; negative increments are rejected iff decrements are not allowed.
func VerifH_C01_CounterInt() {
	allowDec := vConfInt("pn") == 1
	s1 := &vKV{}
	vAssert(vApplyActive(s1) == nil, "setup-active")
	ctx := context.Background()
	mk := func(s *vKV) *Counter {
		return NewCounter(s, "sv", vDocKey2, "c", allowDec, client.FieldKind_NILLABLE_INT)
	}
	cur := int64(0)
	if vConfInt("pre") == 1 {
		cur = vI64("cur")
		if !allowDec {
			vAssume(cur >= 0)
		}
		vAssert(mk(s1).Merge(ctx, &CounterDelta{Data: vCborInt(cur), Priority: 1}) == nil, "setup-cur")
	}
	deleted := vConfInt("deleted") == 1
	if deleted {
		vAssert(vApplyDelete(s1) == nil, "setup-delete")
	}
	a, b := vI64("a"), vI64("b")
	pa, pb := vU64("pa"), vU64("pb")
	vAssume(vAnd(vAnd(pa >= 1, pa < 300), vAnd(pb >= 1, pb < 300)))
	s2 := s1.clone()
	da, db := &CounterDelta{Data: vCborInt(a), Priority: pa}, &CounterDelta{Data: vCborInt(b), Priority: pb}
	e11 := mk(s1).Merge(ctx, da)
	e12 := mk(s1).Merge(ctx, db)
	e21 := mk(s2).Merge(ctx, db)
	e22 := mk(s2).Merge(ctx, da)
	vCover("merged")
	okA, okB := vOr(allowDec, a >= 0), vOr(allowDec, b >= 0)
	vAssert((e11 == nil) == okA, "a-accepted-iff-admissible")
	vAssert((e12 == nil) == okB, "b-accepted-iff-admissible")
	vAssert((e22 == nil) == okA, "a-accepted-iff-admissible-other-order")
	vAssert((e21 == nil) == okB, "b-accepted-iff-admissible-other-order")
	want := cur
	if e11 == nil {
		want += a
	}
	if e12 == nil {
		want += b
	}
	v1, has1 := vCounterValue(s1, deleted)
	v2, has2 := vCounterValue(s2, deleted)
	if e11 == nil || e12 == nil || vConfInt("pre") == 1 {
		vAssert(has1 && has2, "value-present")
		vAssert(v1 == want, "sum-of-increments")
		vAssert(v2 == want, "sum-of-increments-other-order")
	}
	vObserve("v1", v1)
}

// VerifH_C01_CounterFloat — float counters: posed the same way; float addition is not associative, so
// the order-independence assertion is expected to be violated for float64 (diagnostic, finding D8)
func VerifH_C01_CounterFloat() {
	s1 := &vKV{}
	vAssert(vApplyActive(s1) == nil, "setup-active")
	ctx := context.Background()
	mk := func(s *vKV) *Counter {
		return NewCounter(s, "sv", vDocKey2, "c", true, client.FieldKind_NILLABLE_FLOAT64)
	}
	enc := func(f float64) []byte {
		b, err := cbor.Marshal(f)
		if err != nil {
			panic("cbor")
		}
		return b
	}
	cur, a, b := vF64("cur"), vF64("a"), vF64("b")
	vAssume(vAnd(cur == cur, vAnd(a == a, b == b)))
	vAssert(mk(s1).Merge(ctx, &CounterDelta{Data: enc(cur), Priority: 1}) == nil, "setup-cur")
	s2 := s1.clone()
	vAssert(mk(s1).Merge(ctx, &CounterDelta{Data: enc(a), Priority: 2}) == nil, "merge")
	vAssert(mk(s1).Merge(ctx, &CounterDelta{Data: enc(b), Priority: 2}) == nil, "merge")
	vAssert(mk(s2).Merge(ctx, &CounterDelta{Data: enc(b), Priority: 2}) == nil, "merge")
	vAssert(mk(s2).Merge(ctx, &CounterDelta{Data: enc(a), Priority: 2}) == nil, "merge")
	r1, _ := s1.peek(vDocKey2.WithValueFlag().Bytes())
	r2, _ := s2.peek(vDocKey2.WithValueFlag().Bytes())
	var f1, f2 float64
	vAssert(cbor.Unmarshal(r1, &f1) == nil && cbor.Unmarshal(r2, &f2) == nil, "decode")
	vCover("merged")
	vAssert(vOr(f1 == f2, vAnd(f1 != f1, f2 != f2)), "float-sum-order-independent")
}

// ---- composite: delete wins, no resurrection ----

// VerifH_C01_Composite — O3: any two orders of {write d1, write d2, delete, active-composite} leave the
// same store; deleted iff a delete was merged; the value lives under the deleted prefix iff deleted.
func VerifH_C01_Composite() {
	maxLen := vConfInt("maxlen")
	d1, d2 := vMkLWWOp("d1", maxLen), vMkLWWOp("d2", maxLen)
	if vConfInt("class") == 1 {
		nt := vAnd(d1.prio == d2.prio, bytes.Equal(d1.data, client.CborNil) != bytes.Equal(d2.data, client.CborNil))
		vAssume(!nt)
	}
	apply := func(s *vKV, op int) error {
		switch op {
		case 0:
			return vApplyLWW(s, d1)
		case 1:
			return vApplyLWW(s, d2)
		case 2:
			return vApplyDelete(s)
		}
		return vApplyActive(s)
	}
	// two permutations of the four operations; the creating (active) composite commit comes first on both
	// replicas because every other commit descends from it
	perm := func(name string) []int {
		rest := []int{0, 1, 2}
		var p []int
		for len(rest) > 0 {
			i := vChoose(name, len(rest))
			p = append(p, rest[i])
			rest = append(rest[:i:i], rest[i+1:]...)
		}
		// a later active composite (an update commit concurrent with the delete) at a symbolic position
		pos := vChoose(name+".active", 4)
		q := append([]int{}, p[:pos]...)
		q = append(q, 3)
		return append(q, p[pos:]...)
	}
	s1, s2 := &vKV{}, &vKV{}
	vAssert(vApplyActive(s1) == nil && vApplyActive(s2) == nil, "setup-active")
	for _, op := range perm("p1") {
		vAssert(apply(s1, op) == nil, "merge-never-fails")
	}
	for _, op := range perm("p2") {
		vAssert(apply(s2, op) == nil, "merge-never-fails")
	}
	vCover("merged")
	vAssert(vKVEqual(s1, s2), "order-independent")
	marker, ok := s1.peek(vCompKey.ToPrimaryDataStoreKey().Bytes())
	vAssert(ok && len(marker) == 1 && marker[0] == base.DeletedObjectMarker, "deleted-stays-deleted")
	best := d1
	if vLWWBetter(d2, d1) {
		best = d2
	}
	val, has := vRegValue(s1, vDocKey, true)
	if bytes.Equal(best.data, client.CborNil) {
		vAssert(!has, "null-winner-clears-value")
	} else {
		vAssert(has && bytes.Equal(val, best.data), "value-under-deleted-prefix")
	}
	_, live := vRegValue(s1, vDocKey, false)
	vAssert(!live, "no-live-value-after-delete")
}

// VerifH_C01_Reach — vacuity twin
func VerifH_C01_Reach() {
	s := &vKV{}
	d := vMkLWWOp("d", 1)
	err := vApplyLWW(s, d)
	_, has := vRegValue(s, vDocKey, false)
	vCover("end")
	vAssert(err != nil || !has, "reach-twin")
}

// ---- C05.O1: storage faults are propagated by every CRDT merge ----

// VerifH_C05_CRDTFaults — conf op: 0 LWW.Merge (live doc), 1 LWW.Merge on a deleted doc, 2 Counter.Merge,
// 3 DocComposite delete merge (with two live value keys to move), 4 DocComposite active merge.
// Any subset of <=2 failing operations among the first `window` store operations: if a fault was injected the
// merge returns an error; without faults it returns nil.
func VerifH_C05_CRDTFaults() {
	s := &vKV{}
	ctx := context.Background()
	vAssert(vApplyActive(s) == nil, "setup")
	vAssert(vApplyLWW(s, vLWWOp{data: []byte{1}, prio: 2}) == nil, "setup")
	c0 := NewCounter(s, "sv", vDocKey2, "c", true, client.FieldKind_NILLABLE_INT)
	vAssert(c0.Merge(ctx, &CounterDelta{Data: vCborInt(5), Priority: 2}) == nil, "setup")
	op := vConfInt("op")
	if op == 1 {
		vAssert(vApplyDelete(s) == nil, "setup")
	}
	f := &vFaults{window: vConfInt("window"), max: 2}
	s.faults = f
	var err error
	switch op {
	case 0, 1:
		d := vMkLWWOp("d", 1)
		err = vApplyLWW(s, d)
	case 2:
		c := NewCounter(s, "sv", vDocKey2, "c", true, client.FieldKind_NILLABLE_INT)
		err = c.Merge(ctx, &CounterDelta{Data: vCborInt(int64(vI16("inc"))), Priority: 3})
	case 3:
		err = vApplyDelete(s)
	default:
		err = vApplyActive(s)
	}
	s.faults = nil
	vCover("ran")
	vAssert(vImplies(f.injected > 0, err != nil), "fault-propagates")
	vAssert(vImplies(f.injected == 0, err == nil), "no-fault-no-error")
	vBound(f.count <= f.window, "window-covers-all-store-operations")
	vObserve("ops", f.count)
}
