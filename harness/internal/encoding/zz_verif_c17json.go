//go:build verif

package encoding

// C17 — JSON-kind values (one property segment, scalar leaf): within one leaf type the byte order of the encoded keys is
// the order of the values (reversed for a descending field), a JSON null sorts before every other leaf ascending and
// after it descending, and decode(encode(v)) gives the leaf back.

import (
	"bytes"

	"github.com/sourcenetwork/defradb/client"
)

const (
	jkNull = iota
	jkBool
	jkNumber
	jkString
)

type jLeaf struct {
	kind int
	b    bool
	f    float64
	s    string
}

func jMk(name string, kind int) jLeaf {
	l := jLeaf{kind: kind}
	switch kind {
	case jkBool:
		l.b = vBool(name)
	case jkNumber:
		l.f = vF64(name)
		vAssume(l.f == l.f)
	case jkString:
		l.s = vString(name, 1)
	}
	return l
}

func (l jLeaf) json() client.JSON {
	var v any
	switch l.kind {
	case jkBool:
		v = l.b
	case jkNumber:
		v = l.f
	case jkString:
		v = l.s
	}
	j, err := client.NewJSONWithPath(v, client.JSONPath{}.AppendProperty("p"))
	if err != nil {
		panic("NewJSON")
	}
	return j
}

// VerifH_C17_JSON — conf: ka, kb (leaf kinds), desc
func VerifH_C17_JSON() {
	desc := vConfInt("desc") != 0
	ka, kb := vConfInt("ka"), vConfInt("kb")
	a, b := jMk("a", ka), jMk("b", kb)
	ea := EncodeFieldValue(nil, client.NewNormalJSON(a.json()), desc)
	eb := EncodeFieldValue(nil, client.NewNormalJSON(b.json()), desc)
	vCover("encoded")
	cmp := bytes.Compare(ea, eb)
	if desc {
		cmp = -cmp
	}
	switch {
	case ka == jkNull && kb != jkNull:
		vAssert(cmp < 0, "json-null-sorts-first-ascending-last-descending")
	case ka == jkNull && kb == jkNull:
		vAssert(cmp == 0, "equal-values-equal-bytes")
	case ka == kb && ka == jkBool:
		vAssert((cmp < 0) == (!a.b && b.b) && (cmp == 0) == (a.b == b.b), "json-leaf-order-is-value-order")
	case ka == kb && ka == jkNumber:
		vAssert((cmp < 0) == (a.f < b.f), "json-leaf-order-is-value-order")
		vAssert(vImplies(a.f == b.f, cmp == 0), "equal-values-equal-bytes")
	case ka == kb && ka == jkString:
		vAssert((cmp < 0) == (a.s < b.s) && (cmp == 0) == (a.s == b.s), "json-leaf-order-is-value-order")
	}
	// round trip of a
	rest, back, err := DecodeFieldValue(ea, desc, client.FieldKind_NILLABLE_JSON)
	vAssert(err == nil && len(rest) == 0, "json-decodes")
	if err == nil {
		j, ok := back.JSON()
		vAssert(ok, "json-decodes")
		if ok {
			switch ka {
			case jkNull:
				vAssert(j.IsNull(), "json-round-trip")
			case jkBool:
				x, ok := j.Bool()
				vAssert(ok && x == a.b, "json-round-trip")
			case jkNumber:
				x, ok := j.Number()
				vAssert(ok && x == a.f, "json-round-trip")
			case jkString:
				x, ok := j.String()
				vAssert(ok && x == a.s, "json-round-trip")
			}
		}
	}
	vObserve("cmp", cmp < 0)
}
