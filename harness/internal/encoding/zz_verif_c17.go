//go:build verif

package encoding

// C17 — index key encoding preserves value order and loses nothing.
// Harnesses drive the real EncodeFieldValue / DecodeFieldValue with symbolic scalars boxed in
// real client.NormalValue objects.

import (
	"bytes"
	"math"
	"time"

	"github.com/sourcenetwork/defradb/client"
)

const (
	vkInt = iota
	vkFloat64
	vkFloat32
	vkBool
	vkString
	vkTime
)

type vScalar struct {
	kind      int
	null      bool
	i         int64
	f         float64
	g         float32
	b         bool
	s         string
	sec, nsec int64
}

func vFieldKind(kind int) client.FieldKind {
	switch kind {
	case vkInt:
		return client.FieldKind_NILLABLE_INT
	case vkFloat64:
		return client.FieldKind_NILLABLE_FLOAT64
	case vkFloat32:
		return client.FieldKind_NILLABLE_FLOAT32
	case vkBool:
		return client.FieldKind_NILLABLE_BOOL
	case vkString:
		return client.FieldKind_NILLABLE_STRING
	}
	return client.FieldKind_NILLABLE_DATETIME
}

func vString(name string, maxLen int) string {
	n := vChoose(name+".len", maxLen+1)
	b := make([]byte, n)
	for i := 0; i < n; i++ {
		b[i] = vU8(name + ".b")
	}
	return string(b)
}

// vMkScalar: an arbitrary value of the kind (null allowed when nullable is set)
func vMkScalar(name string, kind int, nullable bool, maxLen int) vScalar {
	v := vScalar{kind: kind}
	if nullable && vChoose(name+".null", 2) == 1 {
		v.null = true
		return v
	}
	switch kind {
	case vkInt:
		v.i = vI64(name)
	case vkFloat64:
		v.f = vF64(name)
	case vkFloat32:
		v.g = vF32(name)
	case vkBool:
		v.b = vBool(name)
	case vkString:
		v.s = vString(name, maxLen)
	case vkTime:
		v.sec = vI64(name + ".sec")
		v.nsec = vI64(name + ".nsec")
		// what time.Unix documents: nsec in [0, 999999999]; sec bounded so that the internal
		// 1885-epoch offset cannot overflow
		vAssume(vAnd(vAnd(v.nsec >= 0, v.nsec < 1000000000), vAnd(v.sec >= -(1<<55), v.sec <= 1<<55)))
	}
	return v
}

func (v vScalar) normal() client.NormalValue {
	if v.null {
		n, err := client.NewNormalNil(vFieldKind(v.kind))
		if err != nil {
			panic("NewNormalNil failed")
		}
		return n
	}
	switch v.kind {
	case vkInt:
		return client.NewNormalInt(v.i)
	case vkFloat64:
		return client.NewNormalFloat64(v.f)
	case vkFloat32:
		return client.NewNormalFloat32(v.g)
	case vkBool:
		return client.NewNormalBool(v.b)
	case vkString:
		return client.NewNormalString(v.s)
	}
	return client.NewNormalTime(time.Unix(v.sec, v.nsec))
}

func (v vScalar) isNaN() bool {
	switch v.kind {
	case vkFloat64:
		return !v.null && v.f != v.f
	case vkFloat32:
		return !v.null && v.g != v.g
	}
	return false
}

// reference order on values of one kind: null first, then the natural order of the kind
func vLess(a, b vScalar) bool {
	if a.null || b.null {
		return a.null && !b.null
	}
	switch a.kind {
	case vkInt:
		return a.i < b.i
	case vkFloat64:
		return a.f < b.f
	case vkFloat32:
		return a.g < b.g
	case vkBool:
		return vAnd(!a.b, b.b)
	case vkString:
		return a.s < b.s
	}
	return vOr(a.sec < b.sec, vAnd(a.sec == b.sec, a.nsec < b.nsec))
}

func vEq(a, b vScalar) bool {
	if a.null || b.null {
		return a.null && b.null
	}
	switch a.kind {
	case vkInt:
		return a.i == b.i
	case vkFloat64:
		return a.f == b.f
	case vkFloat32:
		return a.g == b.g
	case vkBool:
		return a.b == b.b
	case vkString:
		return a.s == b.s
	}
	return vAnd(a.sec == b.sec, a.nsec == b.nsec)
}

// VerifH_C17_Order — O2: value order ⇔ byte order (reversed for descending), equal values have equal
// encodings. conf: kind, desc, maxlen, nullable.
func VerifH_C17_Order() {
	kind, desc, maxLen := vConfInt("kind"), vConfInt("desc") != 0, vConfInt("maxlen")
	nullable := vConfInt("nullable") != 0
	a := vMkScalar("a", kind, nullable, maxLen)
	b := vMkScalar("b", kind, nullable, maxLen)
	// NaN cannot enter through JSON / GraphQL and has no place in the value order
	vAssume(vAnd(!a.isNaN(), !b.isNaN()))
	ea := EncodeFieldValue(nil, a.normal(), desc)
	eb := EncodeFieldValue(nil, b.normal(), desc)
	c := bytes.Compare(ea, eb)
	less, eq := vLess(a, b), vEq(a, b)
	vCover("encoded")
	if desc {
		vAssert(vImplies(less, c > 0), "order-desc")
	} else {
		vAssert(vImplies(less, c < 0), "order-asc")
	}
	vAssert(vImplies(eq, c == 0), "equal-values-equal-bytes")
	vAssert(vImplies(c == 0, eq), "equal-bytes-equal-values")
	vObserve("ea", ea)
	vObserve("eb", eb)
	vObserve("c", c)
}

// VerifH_C17_RoundTrip — O1 + O3: Decode(Encode(v) ++ suffix) = (suffix, v). conf: kind, desc, maxlen,
// nullable, suffix (number of arbitrary trailing bytes).
func VerifH_C17_RoundTrip() {
	kind, desc, maxLen := vConfInt("kind"), vConfInt("desc") != 0, vConfInt("maxlen")
	nullable := vConfInt("nullable") != 0
	nsuf := vConfInt("suffix")
	a := vMkScalar("a", kind, nullable, maxLen)
	enc := EncodeFieldValue(nil, a.normal(), desc)
	vObserve("enc", enc)
	buf := append([]byte{}, enc...)
	suffix := make([]byte, nsuf)
	for i := range suffix {
		suffix[i] = vU8("suffix")
	}
	buf = append(buf, suffix...)
	rest, val, err := DecodeFieldValue(buf, desc, vFieldKind(kind))
	vCover("decoded")
	vAssert(err == nil, "decode-no-error")
	if err != nil {
		return
	}
	vAssert(bytes.Equal(rest, suffix), "self-delimiting")
	vObserve("rest", rest)
	if a.null {
		vAssert(val.IsNil(), "null-roundtrip")
		return
	}
	vAssert(!val.IsNil(), "non-null-roundtrip")
	switch kind {
	case vkInt:
		x, ok := val.Int()
		vAssert(ok, "kind")
		vAssert(x == a.i, "value")
		vObserve("x", x)
	case vkFloat64:
		x, ok := val.Float64()
		vAssert(ok, "kind")
		// value-level equality: x == a, NaN comes back as a NaN
		vAssert(vOr(x == a.f, vAnd(x != x, a.f != a.f)), "value")
		vObserve("x", x == a.f)
	case vkFloat32:
		x, ok := val.Float32()
		vAssert(ok, "kind")
		vAssert(vOr(x == a.g, vAnd(x != x, a.g != a.g)), "value")
		vObserve("x", x == a.g)
	case vkBool:
		x, ok := val.Bool()
		vAssert(ok, "kind")
		vAssert(x == a.b, "value")
	case vkString:
		x, ok := val.String()
		vAssert(ok, "kind")
		vAssert(x == a.s, "value")
		vObserve("x", x)
	case vkTime:
		x, ok := val.Time()
		vAssert(ok, "kind")
		vAssert(vAnd(x.Unix() == a.sec, int64(x.Nanosecond()) == a.nsec), "value")
		vAssert(x.Equal(time.Unix(a.sec, a.nsec)), "time-equal")
		vObserve("x", x.Unix())
	}
}

// VerifH_C17_FloatBitExact — O1b (diagnostic): bit-exact round trip of floats, i.e. -0 comes back as -0.
func VerifH_C17_FloatBitExact() {
	desc := vConfInt("desc") != 0
	f := vF64("f")
	vAssume(f == f)
	// class split for the known finding "the sign of a float zero is not preserved"
	if vConfInt("zero") != 0 {
		vAssume(f == 0)
	} else {
		vAssume(f != 0)
	}
	enc := EncodeFieldValue(nil, client.NewNormalFloat64(f), desc)
	_, val, err := DecodeFieldValue(enc, desc, client.FieldKind_NILLABLE_FLOAT64)
	vAssert(err == nil, "decode-no-error")
	if err != nil {
		return
	}
	x, _ := val.Float64()
	vCover("decoded")
	vAssert(math.Float64bits(x) == math.Float64bits(f), "bit-exact")
}

// VerifH_C17_NaNFirst — documented behaviour: NaN sorts before every other float ascending, after descending
func VerifH_C17_NaNFirst() {
	desc := vConfInt("desc") != 0
	nan := vF64("nan")
	f := vF64("f")
	vAssume(vAnd(nan != nan, f == f))
	ea := EncodeFieldValue(nil, client.NewNormalFloat64(nan), desc)
	eb := EncodeFieldValue(nil, client.NewNormalFloat64(f), desc)
	c := bytes.Compare(ea, eb)
	vCover("encoded")
	if desc {
		vAssert(c > 0, "nan-last-desc")
	} else {
		vAssert(c < 0, "nan-first-asc")
	}
}

// VerifH_C17_Reach — vacuity twin: the final assertion is false and must come back violated
func VerifH_C17_Reach() {
	kind, desc := vConfInt("kind"), vConfInt("desc") != 0
	a := vMkScalar("a", kind, false, 1)
	enc := EncodeFieldValue(nil, a.normal(), desc)
	_, _, err := DecodeFieldValue(enc, desc, vFieldKind(kind))
	vCover("end")
	vAssert(err != nil, "reach-twin")
}
