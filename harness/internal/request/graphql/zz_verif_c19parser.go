//go:build verif

package graphql

// C19 / C05 — the GraphQL types a schema change generates take effect only if the change is committed: the real
// parser.SetSchema inside a real datastore.BasicTxn (over the key-value model); the generation of the types itself
// (graphql-go, reflection) is replaced inside the solver run.

import (
	"context"

	gql "github.com/sourcenetwork/graphql-go"

	"github.com/sourcenetwork/defradb/client"
	"github.com/sourcenetwork/defradb/internal/datastore"
	"github.com/sourcenetwork/defradb/internal/request/graphql/schema"
)

// redirect targets inside the solver run
func gNewSchemaManager() (*schema.SchemaManager, error) { return &schema.SchemaManager{}, nil }
func gGenerate(g *schema.Generator, ctx context.Context, collections []client.CollectionDefinition) ([]*gql.Object, error) {
	return nil, nil
}

// VerifH_C19_SetSchemaOnCommit — the schema types of the parser after a schema change inside a transaction that is then
// committed (commit succeeding or failing) or discarded
func VerifH_C19_SetSchemaOnCommit() {
	old := &schema.SchemaManager{}
	var p *parser
	if vSymbolic() {
		p = &parser{schemaManager: old}
	} else {
		np, err := NewParser()
		vBound(err == nil, "parser")
		p = np
		old = p.schemaManager
	}
	root := &vKV{}
	if vBool("commit-fails") {
		root.commitErr = vErrInjected
	}
	bg := context.Background()
	txn := datastore.NewTxnFrom(bg, root, 1, false)
	ctx := datastore.CtxSetTxn(bg, txn)
	err := p.SetSchema(ctx, nil)
	vAssert(err == nil, "set-schema-no-error")
	vAssert(p.schemaManager == old, "uncommitted-schema-change-does-not-change-the-query-types")
	if vBool("caller-commits") {
		cerr := txn.Commit(ctx)
		vCover("committed")
		if cerr == nil {
			vAssert(p.schemaManager != old, "committed-schema-change-takes-effect")
		} else {
			vAssert(p.schemaManager == old, "failed-commit-leaves-the-query-types")
		}
	} else {
		txn.Discard(ctx)
		vCover("discarded")
		vAssert(p.schemaManager == old, "discarded-schema-change-leaves-the-query-types")
	}
	vObserve("changed", p.schemaManager != old)
}
