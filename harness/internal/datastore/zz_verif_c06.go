//go:build verif

package datastore

// C06 (thin: the plumbing in this repository) — transactions made by NewTxnFrom over a store that provides snapshot
// transactions with conflict detection (the kvtxn model of the corekv contract) are isolated through every store
// accessor: the real NewTxnFrom, NewMultistore, the namespace wrappers, BasicTxn.Commit / Discard and the
// non-transactional XxxFrom accessors, against an abstract specification kept by the harness:
//   - a read inside a transaction sees the state as of its start plus its own writes;
//   - nothing a transaction wrote is visible to the other transaction or outside before it commits, all of it after;
//   - a discarded or conflicting transaction leaves no trace;
//   - of two overlapping transactions that read and then wrote the same key, the second to commit gets ErrTxnConflict;
//   - a key written through one accessor is not visible through another.
// The isolation mechanism itself (badger, corekv/memory) is not code of this repository and is not executed.

import (
	"context"
	"errors"

	"github.com/sourcenetwork/corekv"
)

const tAcc = 5 // data, head, system, peer, root
const tKeys = 1

type tCell struct {
	has bool
	v   byte
}

type tState [tAcc][tKeys]tCell

type tSpecTxn struct {
	begun, ended bool
	snap         tState
	wrote        [tAcc][tKeys]bool
	val          [tAcc][tKeys]tCell
	read         [tAcc][tKeys]bool
	stale        [tAcc][tKeys]bool // a key it read was committed by someone else since its start
	nwrites      int
}

func tAccessor(m interface {
	Datastore() corekv.ReaderWriter
	Headstore() corekv.ReaderWriter
	Systemstore() corekv.ReaderWriter
	Peerstore() corekv.ReaderWriter
	Rootstore() corekv.ReaderWriter
}, a int) corekv.ReaderWriter {
	switch a {
	case 0:
		return m.Datastore()
	case 1:
		return m.Headstore()
	case 2:
		return m.Systemstore()
	case 3:
		return m.Peerstore()
	}
	return m.Rootstore()
}

func tOutside(s *vStore, a int) corekv.ReaderWriter {
	switch a {
	case 0:
		return DatastoreFrom(s)
	case 1:
		return HeadstoreFrom(s)
	case 2:
		return SystemstoreFrom(s)
	case 3:
		return PeerstoreFrom(s)
	}
	return s
}

var tKeyBytes = [tKeys][]byte{[]byte("/k0")}

// VerifH_C06_Isolation — conf: ops (length of the schedule), acc0 / acc1 (the two store accessors used)
func VerifH_C06_Isolation() {
	ctx := context.Background()
	store := vNewStore()
	var committed tState
	var real [2]*BasicTxn
	var spec [2]tSpecTxn
	checkOutside := func() {
		for a := 0; a < tAcc; a++ {
			for k := 0; k < tKeys; k++ {
				got, err := tOutside(store, a).Get(ctx, tKeyBytes[k])
				if committed[a][k].has {
					vAssert(err == nil && len(got) == 1 && got[0] == committed[a][k].v, "outside-sees-exactly-the-committed-state")
				} else {
					vAssert(errors.Is(err, corekv.ErrNotFound), "outside-sees-exactly-the-committed-state")
				}
			}
		}
	}
	n := vConfInt("ops")
	for step := 0; step < n; step++ {
		t := vChoose("txn", 2)
		st := &spec[t]
		if st.ended {
			continue
		}
		if !st.begun {
			real[t] = NewTxnFrom(ctx, store, uint64(t+1), false)
			st.begun, st.snap = true, committed
		}
		// the schedule uses two of the five accessors (conf acc0, acc1) and the same key bytes in both
		pick := func() int {
			if vChoose("accessor", 2) == 0 {
				return vConfInt("acc0")
			}
			return vConfInt("acc1")
		}
		switch vChoose("op", 4) {
		case 0: // write
			a, k, v := pick(), 0, vU8("value")
			vAssert(tAccessor(real[t], a).Set(ctx, tKeyBytes[k], []byte{v}) == nil, "set-no-error")
			if !st.wrote[a][k] {
				st.nwrites++
			}
			st.wrote[a][k], st.val[a][k] = true, tCell{has: true, v: v}
		case 1: // read
			a, k := pick(), 0
			got, err := tAccessor(real[t], a).Get(ctx, tKeyBytes[k])
			want := st.snap[a][k]
			if st.wrote[a][k] {
				want = st.val[a][k]
			}
			if want.has {
				vAssert(err == nil && len(got) == 1 && got[0] == want.v, "read-sees-snapshot-plus-own-writes")
			} else {
				vAssert(errors.Is(err, corekv.ErrNotFound), "read-sees-snapshot-plus-own-writes")
			}
			st.read[a][k] = true
		case 2: // commit
			err := real[t].Commit(ctx)
			conflict := false
			if st.nwrites > 0 {
				for a := 0; a < tAcc; a++ {
					for k := 0; k < tKeys; k++ {
						if st.read[a][k] && st.stale[a][k] {
							conflict = true
						}
					}
				}
			}
			if conflict {
				vAssert(errors.Is(err, corekv.ErrTxnConflict), "overlapping-read-write-of-the-same-key-conflicts")
			} else {
				vAssert(err == nil, "commit-no-error")
				for a := 0; a < tAcc; a++ {
					for k := 0; k < tKeys; k++ {
						if st.wrote[a][k] {
							committed[a][k] = st.val[a][k]
							// the other transaction, if it is running, has read a key that is now stale
							spec[1-t].stale[a][k] = spec[1-t].begun && !spec[1-t].ended
						}
					}
				}
			}
			st.ended = true
		default: // discard
			real[t].Discard(ctx)
			st.ended = true
		}
		checkOutside()
	}
	vCover("scheduled")
}
