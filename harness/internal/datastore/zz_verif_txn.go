//go:build verif

package datastore

// C16 (lock discipline of the concurrent transaction wrapper) and C05.O3 / C20.O2 (transaction
// life-cycle: callbacks run iff the store commit succeeded).

import (
	"context"
	"sync"

	"github.com/sourcenetwork/corekv"
)

// vMutexHeld reports whether mu is currently locked. In symgo the mutex is ghost state and this is an
// intrinsic; natively TryLock tells.
func vMutexHeld(mu *sync.Mutex) bool {
	if mu.TryLock() {
		mu.Unlock()
		return false
	}
	return true
}

// VerifH_C16_LockDiscipline: every access that reaches the root transaction through a concurrent
// transaction happens with the wrapper's mutex held (single-threaded sufficient condition for
// serialising concurrent users). conf: store (0 data,1 head,2 system,3 peer,4 root), op (0 Get,1 Set,2 Has,3 Delete)
func VerifH_C16_LockDiscipline() {
	root := &vKV{}
	ctx := context.Background()
	txn := NewConcurrentTxnFrom(ctx, root, 1, false)
	ct, ok := txn.txn.(*concurrentTxn)
	vAssert(ok, "wrapper-installed")
	if !ok {
		return
	}
	reached := 0
	root.onOp = func(op string) {
		reached++
		vAssert(vMutexHeld(&ct.mu), "root-access-under-mutex")
	}
	var st corekv.ReaderWriter
	switch vConfInt("store") {
	case 0:
		st = txn.Datastore()
	case 1:
		st = txn.Headstore()
	case 2:
		st = txn.Systemstore()
	case 3:
		st = txn.Peerstore()
	default:
		st = txn.Rootstore()
	}
	key := []byte{'/', vU8("k")}
	val := []byte{vU8("v")}
	var err error
	switch vConfInt("op") {
	case 0:
		_, err = st.Get(ctx, key)
		vAssert(err != nil, "get-missing-key-reports-error")
		err = nil
	case 1:
		err = st.Set(ctx, key, val)
	case 2:
		_, err = st.Has(ctx, key)
	case 3:
		err = st.Delete(ctx, key)
	default:
		// an iterator over the store: creating it, stepping it, reading from it and closing it
		vAssert(st.Set(ctx, key, val) == nil, "setup")
		before := reached
		it, ierr := st.Iterator(ctx, corekv.IterOptions{Prefix: []byte{'/'}})
		vAssert(ierr == nil, "iterator-no-error")
		if ierr == nil {
			vAssert(reached > before, "iterator-created-on-the-root")
			root.iterOnOp = func(op string) { vAssert(vMutexHeld(&ct.mu), "iterator-step-under-mutex") }
			ok, nerr := it.Next()
			vAssert(ok && nerr == nil, "iterator-yields-the-entry")
			_, verr := it.Value()
			vAssert(verr == nil, "iterator-value")
			_ = it.Key()
			vAssert(it.Close() == nil, "iterator-close")
			vAssert(root.iterOps >= 3, "iterator-steps-reached-the-root")
		}
		reached = 1
	}
	vCover("accessed")
	vAssert(err == nil, "no-error")
	vAssert(reached == 1, "reached-root-once")
	vAssert(!vMutexHeld(&ct.mu), "mutex-released")
	vObserve("reached", reached)
}

// VerifH_C16_NoLostWrite: a write through any store accessor of the concurrent transaction is visible
// through the root transaction under the namespaced key and through the same accessor
func VerifH_C16_WriteVisible() {
	root := &vKV{}
	ctx := context.Background()
	txn := NewConcurrentTxnFrom(ctx, root, 1, false)
	key := []byte{'/', vU8("k")}
	val := []byte{vU8("v")}
	vAssert(txn.Datastore().Set(ctx, key, val) == nil, "set")
	got, err := txn.Datastore().Get(ctx, key)
	vCover("accessed")
	vAssert(err == nil, "get")
	vAssert(len(got) == 1 && got[0] == val[0], "read-own-write")
	_, inHead := txn.Headstore().Get(ctx, key)
	vAssert(inHead != nil, "namespaces-disjoint")
}

// VerifH_TxnLifecycle — C05.O3 / C20.O2: Commit runs exactly the success callbacks, in registration
// order, iff the root commit returned nil, otherwise exactly the error callbacks, and returns the root
// error; Discard runs exactly the discard callbacks.
func VerifH_TxnLifecycle() {
	root := &vKV{}
	if vBool("commit-fails") {
		root.commitErr = vErrInjected
	}
	ctx := context.Background()
	txn := NewTxnFrom(ctx, root, 7, false)
	var trace []int
	nS, nE, nD := vChoose("nsuccess", 3), vChoose("nerror", 3), vChoose("ndiscard", 3)
	for i := 0; i < nS; i++ {
		id := 10 + i
		txn.OnSuccess(func() { trace = append(trace, id) })
	}
	for i := 0; i < nE; i++ {
		id := 20 + i
		txn.OnError(func() { trace = append(trace, id) })
	}
	for i := 0; i < nD; i++ {
		id := 30 + i
		txn.OnDiscard(func() { trace = append(trace, id) })
	}
	vAssert(txn.ID() == 7, "id")
	if vBool("do-commit") {
		err := txn.Commit(ctx)
		vCover("committed")
		vAssert(root.commits == 1, "root-commit-called-once")
		vAssert((err == nil) == (root.commitErr == nil), "returns-root-error")
		if err == nil {
			vAssert(len(trace) == nS, "success-callbacks-count")
			for i := 0; i < len(trace) && i < nS; i++ {
				vAssert(trace[i] == 10+i, "success-callbacks-in-order")
			}
		} else {
			vAssert(len(trace) == nE, "error-callbacks-count")
			for i := 0; i < len(trace) && i < nE; i++ {
				vAssert(trace[i] == 20+i, "error-callbacks-in-order")
			}
		}
		// the deferred Discard every API path issues after a commit must not re-run success/error callbacks
		n := len(trace)
		txn.Discard(ctx)
		for i := n; i < len(trace); i++ {
			vAssert(trace[i] >= 30, "discard-after-commit-runs-only-discard-callbacks")
		}
	} else {
		txn.Discard(ctx)
		vCover("discarded")
		vAssert(root.commits == 0, "no-commit-on-discard")
		vAssert(root.discards == 1, "root-discard-called")
		vAssert(len(trace) == nD, "discard-callbacks-count")
		for i := 0; i < len(trace) && i < nD; i++ {
			vAssert(trace[i] == 30+i, "discard-callbacks-in-order")
		}
	}
	vObserve("n", len(trace))
}

// VerifH_Txn_Reach — vacuity twin
func VerifH_Txn_Reach() {
	root := &vKV{}
	ctx := context.Background()
	txn := NewTxnFrom(ctx, root, 7, false)
	hit := false
	txn.OnSuccess(func() { hit = true })
	err := txn.Commit(ctx)
	vCover("end")
	vAssert(err != nil || !hit, "reach-twin")
}

// VerifH_C16_SharedTxn — two goroutines share one concurrent transaction (how the DAG sync uses it). Each performs
// an operation chosen by the solver through a store accessor chosen by the solver (document, head, system, peer and
// root stores, and the stores beneath the block store and the key store), then reads its key back. The root
// transaction (kvmodel) is not safe for concurrent use — like a badger transaction — so the happens-before race
// detector of the symbolic run reports any pair of accesses the wrapper does not serialise; every schedule within
// the preemption bound is explored. Also: every write that reported success is in the final state.
func VerifH_C16_SharedTxn() {
	root := &vKV{}
	ctx := context.Background()
	txn := NewConcurrentTxnFrom(ctx, root, 1, false)
	store := func(i int) corekv.ReaderWriter {
		switch i {
		case 0:
			return txn.Datastore()
		case 1:
			return txn.Headstore()
		case 2:
			return txn.Systemstore()
		case 3:
			return txn.Peerstore()
		case 4:
			return txn.Rootstore()
		case 5:
			if b, ok := txn.Blockstore().(*bstore); ok {
				return b.store
			}
		default:
			if b, ok := txn.Encstore().(*bstore); ok {
				return b.store
			}
		}
		vBound(false, "block store is a *bstore")
		return nil
	}
	s1 := vChoose("store", 7)
	s2 := vChoose("store", 7)
	vAssume(s1 <= s2) // the two goroutines are interchangeable
	o1, o2 := vChoose("op", 4), vChoose("op", 4)
	var errs [2]error
	var wrote [2]bool
	work := func(me int, s corekv.ReaderWriter, op int) func() {
		key := []byte{'/', 'k', byte('0' + me)}
		return func() {
			switch op {
			case 0:
				errs[me] = s.Set(ctx, key, []byte{byte(me)})
				wrote[me] = errs[me] == nil
			case 1:
				_, _ = s.Get(ctx, key)
			case 2:
				_, errs[me] = s.Has(ctx, key)
			default:
				it, err := s.Iterator(ctx, corekv.IterOptions{Prefix: []byte{'/'}})
				errs[me] = err
				if err == nil {
					_, _ = it.Next()
					_ = it.Close()
				}
			}
			vYield()
			if wrote[me] {
				got, err := s.Get(ctx, key)
				vAssert(err == nil && len(got) == 1 && got[0] == byte(me), "successful-write-is-in-the-transaction")
			}
		}
	}
	vRunThreads(work(0, store(s1), o1), work(1, store(s2), o2))
	vCover("accessed")
	vAssert(errs[0] == nil && errs[1] == nil, "no-error")
	for me, s := range []corekv.ReaderWriter{store(s1), store(s2)} {
		if wrote[me] {
			got, err := s.Get(ctx, []byte{'/', 'k', byte('0' + me)})
			vAssert(err == nil && len(got) == 1 && got[0] == byte(me), "successful-write-is-in-the-final-state")
		}
	}
}
