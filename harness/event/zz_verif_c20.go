//go:build verif

package event

// C20.O1 — the event bus delivers to every subscriber exactly the published messages it subscribed to, in
// publish order, each once; nothing after unsubscribe. The real Subscribe / Publish / Unsubscribe enqueue the
// commands, the real handleChannel drains them (single-threaded: the bus struct is built directly, without
// the goroutine NewChannelBus starts).

var bNames = []Name{UpdateName, MergeName, PubSubName}

func bNewBus() *channelBus {
	return &channelBus{
		subs:            make(map[uint64]*channelSub),
		events:          make(map[Name]map[uint64]struct{}),
		commandChannel:  make(chan any, 64),
		hasClosedChan:   make(chan struct{}),
		eventBufferSize: 16,
	}
}

// VerifH_C20_Bus — conf: subs (number of subscribers), pubs (number of publishes), names (event names in play).
// Every subscriber subscribes at a symbolic position of the publish sequence and unsubscribes at a later
// one (or never), so subscriptions come and go while others stay.
func VerifH_C20_Bus() {
	nsub, npub, nnames := vConfInt("subs"), vConfInt("pubs"), vConfInt("names")
	b := bNewBus()
	type subSpec struct {
		named   [3]bool
		wild    bool
		evs     []Name
		sub     Subscription
		subAt   int // subscribes before publish number subAt
		unsubAt int // unsubscribes before publish number unsubAt; npub+1 = never
	}
	specs := make([]*subSpec, nsub)
	for i := range specs {
		s := &subSpec{}
		for k := 0; k < nnames; k++ {
			if vChoose("sub-named", 2) == 1 {
				s.named[k] = true
				s.evs = append(s.evs, bNames[k])
			}
		}
		if vChoose("sub-wild", 2) == 1 {
			s.wild = true
			// the wildcard may be listed before or after the named events
			if vChoose("wild-first", 2) == 1 {
				s.evs = append([]Name{WildCardName}, s.evs...)
			} else {
				s.evs = append(s.evs, WildCardName)
			}
		}
		s.subAt = vChoose("sub-at", npub+1)
		s.unsubAt = s.subAt + 1 + vChoose("unsub-after", npub+1-s.subAt)
		specs[i] = s
	}
	var published []int // index into bNames per message; message id = position
	for p := 0; p <= npub; p++ {
		for _, s := range specs {
			if s.unsubAt == p {
				b.Unsubscribe(s.sub)
			}
		}
		for _, s := range specs {
			if s.subAt == p {
				sub, err := b.Subscribe(s.evs...)
				vAssert(err == nil, "subscribe-no-error")
				s.sub = sub
			}
		}
		if p == npub {
			break
		}
		k := vChoose("pub-name", nnames)
		published = append(published, k)
		b.Publish(NewMessage(bNames[k], p))
	}
	b.commandChannel <- closeCommand{}
	b.handleChannel()
	vCover("handled")
	for _, s := range specs {
		var want []int
		for p, k := range published {
			if p >= s.subAt && p < s.unsubAt && (s.wild || s.named[k]) {
				want = append(want, p)
			}
		}
		ch := s.sub.Message()
		got := 0
		for {
			// non-blocking drain: a queue that was never closed must not hang the check
			var m Message
			ok := false
			select {
			case m, ok = <-ch:
			default:
			}
			if !ok {
				break
			}
			id, isInt := m.Data.(int)
			vAssert(isInt, "message-data-intact")
			vAssert(got < len(want), "no-extra-or-duplicate-message")
			if got < len(want) {
				vAssert(id == want[got], "messages-in-publish-order")
				vAssert(m.Name == bNames[published[want[got]]], "message-name-intact")
			}
			got++
			if got > npub+1 {
				break
			}
		}
		vAssert(got == len(want), "every-subscribed-message-delivered-once")
		vObserve("got", got)
	}
}

// VerifH_C20_BusReach — vacuity twin
func VerifH_C20_BusReach() {
	b := bNewBus()
	sub, _ := b.Subscribe(UpdateName)
	b.Publish(NewMessage(UpdateName, 1))
	b.commandChannel <- closeCommand{}
	b.handleChannel()
	ok := false
	select {
	case _, ok = <-sub.Message():
	default:
	}
	vCover("end")
	vAssert(!ok, "reach-twin")
}

// VerifH_C16_BusThreads — the real bus with its real goroutine (NewChannelBus starts handleChannel) used from several
// goroutines at once: two publishers, optionally a goroutine that unsubscribes the subscriber, then Close. Every
// schedule within the bound: no deadlock, no data race, no panic (no send on a closed subscription), and a subscriber
// that stays subscribed receives every published message exactly once.
// conf: unsub (0/1), preempt
func VerifH_C16_BusThreads() {
	bus := NewChannelBus(4, 4)
	sub, err := bus.Subscribe(UpdateName)
	vAssert(err == nil, "subscribe-no-error")
	if err != nil {
		return
	}
	unsub := vConfInt("unsub") != 0
	fns := []func(){
		func() { bus.Publish(NewMessage(UpdateName, 1)) },
		func() { bus.Publish(NewMessage(UpdateName, 2)) },
	}
	if unsub {
		fns = append(fns, func() { bus.Unsubscribe(sub) })
	}
	vRunThreads(fns...)
	bus.Close()
	vCover("closed")
	var got [3]int
	n := 0
	for m := range sub.Message() {
		n++
		if v, ok := m.Data.(int); ok && v >= 1 && v <= 2 {
			got[v]++
		} else {
			vFail("subscriber-receives-only-published-messages")
		}
	}
	vAssert(got[1] <= 1 && got[2] <= 1, "each-message-at-most-once")
	if !unsub {
		vAssert(got[1] == 1 && got[2] == 1, "subscriber-receives-every-message-exactly-once")
	}
	vObserve("received-all-when-subscribed", unsub || n == 2)
}
