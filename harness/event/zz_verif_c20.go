//go:build verif

package event

// C20.O1 — the event bus delivers to every subscriber exactly the published messages it subscribed to, in
// publish order, each once; nothing after unsubscribe. The real Subscribe / Publish / Unsubscribe enqueue the
// commands, the real handleChannel drains them (single-threaded: the bus struct is built directly, without
// the goroutine NewChannelBus starts).

var bNames = []Name{UpdateName, MergeName, PubSubName}

func bNewBus() *channelBus {
	return &channelBus{
		subs:            make(map[uint64]*channelSub),
		events:          make(map[Name]map[uint64]struct{}),
		commandChannel:  make(chan any, 64),
		hasClosedChan:   make(chan struct{}),
		eventBufferSize: 16,
	}
}

// VerifH_C20_Bus — conf: subs (1..2), pubs (number of publishes)
func VerifH_C20_Bus() {
	nsub, npub := vConfInt("subs"), vConfInt("pubs")
	b := bNewBus()
	type subSpec struct {
		named [3]bool
		wild  bool
		sub   Subscription
		// position (number of publishes already issued) at which it unsubscribes; npub+1 = never
		unsubAt int
	}
	specs := make([]*subSpec, nsub)
	for i := range specs {
		s := &subSpec{}
		var evs []Name
		for k := range bNames {
			if vChoose("sub-named", 2) == 1 {
				s.named[k] = true
				evs = append(evs, bNames[k])
			}
		}
		if vChoose("sub-wild", 2) == 1 {
			s.wild = true
			// the wildcard may be listed before or after the named events
			if vChoose("wild-first", 2) == 1 {
				evs = append([]Name{WildCardName}, evs...)
			} else {
				evs = append(evs, WildCardName)
			}
		}
		sub, err := b.Subscribe(evs...)
		vAssert(err == nil, "subscribe-no-error")
		s.sub = sub
		s.unsubAt = vChoose("unsub-at", npub+2)
		specs[i] = s
	}
	var published []int // index into bNames per message; message id = position
	for p := 0; p <= npub; p++ {
		for _, s := range specs {
			if s.unsubAt == p {
				b.Unsubscribe(s.sub)
			}
		}
		if p == npub {
			break
		}
		k := vChoose("pub-name", len(bNames))
		published = append(published, k)
		b.Publish(NewMessage(bNames[k], p))
	}
	b.commandChannel <- closeCommand{}
	b.handleChannel()
	vCover("handled")
	for _, s := range specs {
		var want []int
		for p, k := range published {
			if p < s.unsubAt && (s.wild || s.named[k]) {
				want = append(want, p)
			}
		}
		ch := s.sub.Message()
		got := 0
		for {
			m, ok := <-ch
			if !ok {
				break
			}
			id, isInt := m.Data.(int)
			vAssert(isInt, "message-data-intact")
			vAssert(got < len(want), "no-extra-or-duplicate-message")
			if got < len(want) {
				vAssert(id == want[got], "messages-in-publish-order")
				vAssert(m.Name == bNames[published[want[got]]], "message-name-intact")
			}
			got++
			if got > npub+1 {
				break
			}
		}
		vAssert(got == len(want), "every-subscribed-message-delivered-once")
		vObserve("got", got)
	}
}

// VerifH_C20_BusReach — vacuity twin
func VerifH_C20_BusReach() {
	b := bNewBus()
	sub, _ := b.Subscribe(UpdateName)
	b.Publish(NewMessage(UpdateName, 1))
	b.commandChannel <- closeCommand{}
	b.handleChannel()
	_, ok := <-sub.Message()
	vCover("end")
	vAssert(!ok, "reach-twin")
}
