#!/usr/bin/env python3
"""check.py — runner for the solver-based checks of /verif.

  ./check.py C17 [--tier quick|thorough]      decide one property
  ./check.py --replay <replay.json>           re-run one stored counterexample natively

For a property it (1) overlays the harness files into /repo's packages (nothing is written to /repo),
(2) lets symgo load the *current* source tree, lower it to SSA and execute every job symbolically with
z3 deciding each branch and assertion, (3) re-executes one witness per explored path concretely inside the
interpreter AND natively (go test with the same overlay) and compares the observations (translator
validation), (4) replays every counterexample natively before reporting it, (5) in the thorough tier
re-decides the dumped unsat queries with cvc5 and z3 5.x, (6) writes /verif/evidence/<id>.json.

Exit codes: 0 property held on everything explored (KNOWN-FINDING lines allowed), 1 VIOLATION,
2 machinery problem (harness stale, unsupported construct, vacuous harness, bound exceeded),
3 inconclusive (solver unknown / engine-native mismatch / solver disagreement). Only exit 1 prints VIOLATION.
"""
import argparse, glob, hashlib, importlib, json, os, re, shutil, subprocess, sys, time

VERIF = os.path.dirname(os.path.abspath(__file__))
REPO = os.environ.get("VERIF_REPO", "/repo")
WORK = os.path.join(VERIF, ".work")
SYMGO = os.path.join(VERIF, "bin", "symgo")
sys.path.insert(0, VERIF)


def goenv():
    env = dict(os.environ)
    env["GOFLAGS"] = "-mod=mod"
    env["GOPROXY"] = "off"
    # the repository's go.mod selects the cached go1.23.8 toolchain; that switch refuses to run with these set
    env.pop("GOTOOLCHAIN", None)
    env.pop("GOSUMDB", None)
    return env


def log(*a):
    print(*a, flush=True)


def ensure_engine():
    src = glob.glob(os.path.join(VERIF, "engine", "cmd", "symgo", "*.go"))
    if os.path.exists(SYMGO) and all(os.path.getmtime(SYMGO) >= os.path.getmtime(f) for f in src):
        return
    os.makedirs(os.path.dirname(SYMGO), exist_ok=True)
    env = goenv()
    env["GOTOOLCHAIN"] = "local"
    r = subprocess.run(["go", "build", "-o", SYMGO, "./cmd/symgo"], cwd=os.path.join(VERIF, "engine"), env=env,
                       capture_output=True, text=True)
    if r.returncode != 0:
        log("ENGINE-BUILD-FAILED", r.stderr[-2000:])
        sys.exit(2)


def pkg_name(pkgdir):
    # package clause of the first non-test go file in the package
    for f in sorted(glob.glob(os.path.join(REPO, pkgdir, "*.go"))):
        if f.endswith("_test.go"):
            continue
        for line in open(f, encoding="utf-8", errors="replace"):
            m = re.match(r"^package\s+(\w+)", line)
            if m:
                return m.group(1)
    raise SystemExit(f"HARNESS-STALE: no package in {pkgdir}")


def build_overlay(prop_id, suite, wdir):
    """returns (engine_overlay, native_overlay, harness function list)"""
    pkgdir = suite["pkg"]
    pname = pkg_name(pkgdir)
    hdir = os.path.join(VERIF, "harness", pkgdir)
    ov = {}
    funcs = []
    for f in suite["files"]:
        real = os.path.join(hdir, f)
        ov[os.path.join(REPO, pkgdir, f)] = real
        funcs += re.findall(r"^func (VerifH_\w+)\(\)", open(real).read(), re.M)
    for c in suite.get("common", ["intrinsics"]):
        tmpl = open(os.path.join(VERIF, "harness", "_common", c + ".go.tmpl")).read().replace("PKGNAME", pname)
        real = os.path.join(wdir, f"zz_verif_{c}.go")
        open(real, "w").write(tmpl)
        ov[os.path.join(REPO, pkgdir, f"zz_verif_{c}.go")] = real
    # source patches: a real file of the package under test with one call site replaced (network call, goroutine
    # launch); regenerated from the current tree on every run, the anchor must occur exactly once
    patched = {}
    for pt in suite.get("patches", []):
        src = os.path.join(REPO, pt["file"])
        if not os.path.exists(src):
            raise SystemExit(f"HARNESS-STALE: {pt['file']} does not exist")
        txt = patched.get(src)
        if txt is None:
            txt = open(src).read()
        if txt.count(pt["anchor"]) != 1:
            print(f"HARNESS-STALE property={prop_id}: patch anchor {pt['anchor']!r} occurs {txt.count(pt['anchor'])} times in {pt['file']}")
            sys.exit(2)
        patched[src] = txt.replace(pt["anchor"], pt["replace"])
    for i, (src, txt) in enumerate(sorted(patched.items())):
        real = os.path.join(wdir, f"patched_{i}_" + os.path.basename(src))
        open(real, "w").write(txt)
        ov[src] = real
    # extra overlays into other packages (e.g. exported test hooks are NOT used; this is for harness-side models)
    for virt, real in suite.get("extra_overlay", {}).items():
        ov[os.path.join(REPO, virt)] = os.path.join(VERIF, "harness", real)
    native = dict(ov)
    tmpl = open(os.path.join(VERIF, "harness", "_common", "replay_test.go.tmpl")).read().replace("PKGNAME", pname)
    tmpl = tmpl.replace("HARNESSLIST", "\n".join(f'\t"{f}": {f},' for f in funcs))
    real = os.path.join(wdir, "zz_verif_replay_test.go")
    open(real, "w").write(tmpl)
    native[os.path.join(REPO, pkgdir, "zz_verif_replay_test.go")] = real
    return ov, native, funcs


def run_symgo(spec, wdir, name, timeout):
    sp = os.path.join(wdir, name + ".spec.json")
    op = os.path.join(wdir, name + ".out.json")
    json.dump(spec, open(sp, "w"))
    if os.path.exists(op):
        os.remove(op)
    t0 = time.time()
    try:
        env = goenv()
        # soft memory limit for the engine (16 workers, each with its own copy of the package-level state of the
        # packages under test): the garbage collector works harder instead of the process growing until it is killed
        env.setdefault("GOMEMLIMIT", "10GiB")
        r = subprocess.run([SYMGO, "-spec", sp, "-out", op], env=env, capture_output=True, text=True, timeout=timeout)
        rc, err = r.returncode, r.stderr
        if rc < 0:
            err += f"\nsymgo was terminated by signal {-rc} (out of memory?)"
    except subprocess.TimeoutExpired:
        rc, err = 124, "symgo timed out"
    if not os.path.exists(op):
        return None, rc, err, time.time() - t0
    return json.load(open(op)), rc, err, time.time() - t0


def run_native(pkgdir, native_ov, reqs, wdir, name, timeout=900, repeat=1, race=False, jitter=False):
    """runs the harness natively on the given requests; returns list of observation lists (or None on failure)"""
    ovp = os.path.join(wdir, name + ".overlay.json")
    json.dump({"Replace": native_ov}, open(ovp, "w"))
    vp = os.path.join(wdir, name + ".vectors.json")
    outp = os.path.join(wdir, name + ".native.json")
    json.dump(reqs, open(vp, "w"))
    if os.path.exists(outp):
        os.remove(outp)
    env = goenv()
    env["VERIF_VECTORS"] = vp
    env["VERIF_OUT"] = outp
    if jitter:
        env["VERIF_JITTER"] = "1"
    cmd = ["go", "test", "-tags", "verif", "-vet=off", "-count=1", "-overlay", ovp, "-run", "^TestVerifReplay$",
           f"-timeout={timeout}s"] + (["-race"] if race else []) + ["./" + pkgdir]
    try:
        r = subprocess.run(cmd, cwd=REPO, env=env, capture_output=True, text=True, timeout=timeout + 60)
    except subprocess.TimeoutExpired:
        return None, "native run timed out"
    if race and os.path.exists(outp):
        # the race detector fails the test binary after the run; the observations were written before that
        res = json.load(open(outp))
        if "WARNING: DATA RACE" in r.stdout + r.stderr:
            res = [o + ["ASSERT-FAIL:no-data-race"] for o in res]
        return res, ""
    if r.returncode != 0 or not os.path.exists(outp):
        return None, (r.stdout + r.stderr)[-3000:]
    return json.load(open(outp)), ""


def cross_check(files, wdir, timeout_s=120):
    """re-decide dumped unsat queries with the other solvers; returns (checked, disagreements, details)"""
    checked, dis, details = 0, 0, []
    solvers = [("z3-new", ["z3-new", "-T:%d" % timeout_s]), ("cvc5", ["cvc5", "--tlimit=%d" % (timeout_s * 1000)])]
    from concurrent.futures import ThreadPoolExecutor

    def one(args):
        f, (sname, cmd) = args
        src = open(f).read()
        if sname == "cvc5":
            tmp = f + ".cvc5.smt2"
            open(tmp, "w").write("(set-logic ALL)\n" + src)
            target = tmp
        else:
            target = f
        try:
            r = subprocess.run(cmd + [target], capture_output=True, text=True, timeout=timeout_s + 30)
            out = (r.stdout + r.stderr).strip().splitlines()
            ans = out[0].strip() if out else "no-output"
            if any("(error" in l for l in out):
                ans = "error:" + " ".join(out)[:200]
        except subprocess.TimeoutExpired:
            ans = "timeout"
        return f, sname, ans

    tasks = [(f, s) for f in files for s in solvers]
    with ThreadPoolExecutor(max_workers=16) as ex:
        for f, sname, ans in ex.map(one, tasks):
            checked += 1
            if ans == "unsat":
                continue
            if ans == "sat":
                dis += 1
            details.append({"file": os.path.basename(f), "solver": sname, "answer": ans})
    return checked, dis, details


def load_known():
    kf = os.path.join(VERIF, "known_findings.jsonl")
    open_f, fixed = {}, {}
    if os.path.exists(kf):
        for line in open(kf):
            line = line.strip()
            if not line or line.startswith("#"):
                continue
            d = json.loads(line)
            if d.get("status") == "fixed":
                fixed[d["finding"]] = d
            else:
                open_f[d["finding"]] = d
    return open_f, fixed


def main():
    ap = argparse.ArgumentParser()
    ap.add_argument("prop", nargs="?")
    ap.add_argument("--tier", default=os.environ.get("VERIF_TIER", "quick"))
    ap.add_argument("--replay")
    ap.add_argument("--only", help="regex on job ids (development aid; evidence is marked partial)")
    ap.add_argument("--keep", action="store_true")
    args = ap.parse_args()
    ensure_engine()
    if args.replay:
        sys.exit(do_replay(args.replay))
    if not args.prop:
        ap.error("property id required")
    seed = int(os.environ.get("VERIF_SEED", "0") or 0)
    tier = args.tier if args.tier in ("quick", "thorough") else "quick"
    pid = args.prop
    t0 = time.time()
    mod = importlib.import_module("props." + pid)
    prop = mod.PROPERTY
    known_open, known_fixed = load_known()
    # one work directory per invocation (two runs of the same property must not share files); --keep uses a fixed name
    wroot = os.path.join(WORK, pid if args.keep else f"{pid}.{tier}.{os.getpid()}")
    shutil.rmtree(wroot, ignore_errors=True)
    if not args.keep:
        import atexit
        atexit.register(lambda: shutil.rmtree(wroot, ignore_errors=True))
    os.makedirs(wroot, exist_ok=True)
    replay_dir = os.path.join(VERIF, "replays", pid)

    ev = {"property_id": pid, "tier": tier, "seed": seed, "level": "model_checking", "wall_s": 0.0, "violations": 0,
          "coverage": {}, "assumptions": list(prop.get("assumptions", []))}
    cov = {"states": 0, "transitions": 0, "traces_validated_against_impl": 0, "samples": [], "obligations": 0,
           "discharged": 0, "inconclusive": 0, "solver_queries": {"total": 0, "sat": 0, "unsat": 0, "unknown": 0},
           "solver_time_s": 0.0, "solvers": ["z3 4.8.12 (deciding)"], "functions_encoded": {}, "harness_functions": [],
           "stubs_hit": {}, "cover_points": {}, "bounds": prop.get("bounds", {}).get(tier, prop.get("bounds", {})),
           "outside_claim": prop.get("outside_claim", []), "known_findings_printed": [], "jobs": [],
           "obligation_labels": {}, "engine_load_s": 0.0, "pruned_paths": 0, "exhaustive": True,
           "cross_solver": {"queries_rechecked": 0, "disagreements": 0, "details": []},
           "transitions_rule": "transitions = solver-decided steps: symbolic branch / case-split decisions plus assertion instances posed; states = symbolic paths completed",
           "technique": "bounded symbolic execution of go/ssa of the current /repo tree; every branch and assertion decided by z3 (bit-vectors, FP)"}
    problems = []  # (code, text)
    violations = []  # dicts
    known_printed = []
    notes = []

    for suite in prop["suites"]:
        sname = suite["name"]
        wdir = os.path.join(wroot, sname)
        os.makedirs(wdir, exist_ok=True)
        try:
            ov, native_ov, hfuncs = build_overlay(pid, suite, wdir)
        except (SystemExit, FileNotFoundError) as ex:
            problems.append((2, f"HARNESS-STALE {sname}: {ex}"))
            continue
        jobs = suite["jobs"](tier)
        if args.only:
            jobs = [j for j in jobs if re.search(args.only, j["id"])]
            cov["exhaustive"] = False
            notes.append("partial run (--only)")
        if not jobs:
            continue
        # conf keys every shared harness may read: "for" (the property whose labels a shared harness asserts;
        # empty = all), "fieldmask" (dagenv: commits that write the field; 0 = all), "or" (C07 read harness: filter shape)
        for j in jobs:
            j.setdefault("conf", {})
            j["conf"].setdefault("for", "")
            j["conf"].setdefault("fieldmask", 0)
            j["conf"].setdefault("or", 0)
            j["conf"].setdefault("keyloss", 0)
        meta = {j["id"]: j for j in jobs}
        ejobs = []
        for j in jobs:
            ej = {k: v for k, v in j.items() if not k.startswith("_")}
            ej.setdefault("witnesses", suite.get("witnesses", {"quick": 24, "thorough": 96})[tier])
            ejobs.append(ej)
        spec = {"repo": REPO, "pkg": suite["pkg"], "overlay": ov, "jobs": ejobs, "workers": suite.get("workers", 16),
                "timeout_ms": {"quick": 60000, "thorough": 300000}[tier], "redirects": suite.get("redirects", {}),
                "overrides": suite.get("overrides", {}), "default_unwind": suite.get("unwind", 12)}
        if tier == "thorough":
            spec["dump_dir"] = os.path.join(wdir, "queries")
            spec["dump_max"] = suite.get("dump_max", 40)
        out, rc, err, wall = run_symgo(spec, wdir, "sym", suite.get("timeout", {"quick": 1500, "thorough": 7200})[tier])
        if out is None or out.get("load_error"):
            le = (out or {}).get("load_error", err[-1500:])
            code = 2
            problems.append((code, f"{'HARNESS-STALE' if 'HARNESS-STALE' in le or 'build error' in le else 'ENGINE-FAILED'} {sname}: {le}"))
            continue
        cov["engine_load_s"] += out["load_s"]
        # ---- native: translator validation + replay, one go test run per suite ----
        reqs, req_meta = [], []
        for r in out["results"]:
            j = meta[r["id"]]
            for i, w in enumerate(r.get("witnesses") or []):
                vec = {k: v for k, v in w.items() if not k.startswith("__")}
                reqs.append({"func": r["func"], "conf": r.get("conf") or {}, "vector": vec})
                req_meta.append(("witness", r["id"], i))
            for i, v in enumerate(r.get("violations") or []):
                if v.get("model") is None:
                    continue
                reqs.append({"func": r["func"], "conf": r.get("conf") or {}, "vector": v["model"]})
                req_meta.append(("violation", r["id"], i))
        native, nerr = (None, "")
        if reqs:
            rep = suite.get("native_repeat", 1)
            native, nerr = run_native(suite["pkg"], native_ov, reqs, wdir, "native")
            if native is None:
                problems.append((2, f"NATIVE-RUN-FAILED {sname}: {nerr}"))
        confirmed = {}  # (job, idx) -> bool
        sched_confirmed = {}
        if native is not None:
            for (kind, jid, i), obs in zip(req_meta, native):
                r = next(x for x in out["results"] if x["id"] == jid)
                if kind == "witness":
                    eobs = r["observations"][i] if r.get("observations") else None
                    if eobs is None:
                        continue
                    # assertions that only the native run can evaluate (e.g. scanning real encoded bytes)
                    nat_only = [x for x in obs if x.startswith("ASSERT-FAIL:native-only:")]
                    obs = [x for x in obs if not x.startswith("ASSERT-FAIL:native-only:")]
                    if meta[jid].get("_schedule_replay") and (r.get("n_violations") or eobs == obs):
                        # the goroutine schedule is an input of the symbolic run and cannot be forced natively: once
                        # the job reports a violation the native run of a *passing* schedule may fail as well
                        if eobs == obs:
                            cov["traces_validated_against_impl"] += 1
                        continue
                    if nat_only and not any(x.startswith("ASSERT-FAIL:") for x in eobs):
                        problems.append((3, f"NATIVE-ONLY-ASSERTION-FAILED {sname}/{jid}: {nat_only[:2]} vector={reqs[req_meta.index((kind, jid, i))]['vector']}"))
                    bad = [x for x in eobs if x == "PANIC" or x == "ASSUME-FAIL" or x.startswith("ENGINE-")]
                    if bad:
                        problems.append((3, f"ENGINE-MISMATCH {sname}/{jid}: witness {i} of a completed path does not complete when re-executed concretely: {bad[:2]} vector={reqs[req_meta.index((kind, jid, i))]['vector']}"))
                    elif eobs == obs:
                        cov["traces_validated_against_impl"] += 1
                    else:
                        problems.append((3, f"ENGINE-MISMATCH {sname}/{jid}: witness {i} engine={eobs[:8]} native={obs[:8]} vector={reqs[req_meta.index((kind, jid, i))]['vector']}"))
                else:
                    v = r["violations"][i]
                    want = "PANIC" if v["kind"] == "panic" else "ASSERT-FAIL:" + v["label"]
                    ok = want in obs
                    if not ok and meta[jid].get("_maporder_replay") and v["kind"] != "panic":
                        ok = native_retry(suite, native_ov, reqs[req_meta.index((kind, jid, i))], want, wdir)
                    if not ok and meta[jid].get("_schedule_replay"):
                        # a schedule-dependent counterexample: any failure of the property's assertions on the native
                        # run of the same inputs confirms it; otherwise replay by repetition (random pauses at the
                        # yield points; under the Go race detector for a reported data race). Confirmed once per job.
                        ok = any(x.startswith("ASSERT-FAIL:") or x == "PANIC" for x in obs)
                        if not ok and sched_confirmed.get(jid) is None:
                            sched_confirmed[jid] = native_retry_sched(suite, native_ov, reqs[req_meta.index((kind, jid, i))], wdir, race=(v["kind"] == "race"))
                        ok = ok or bool(sched_confirmed.get(jid))
                    confirmed[(jid, i)] = ok
                    if ok:
                        cov["traces_validated_against_impl"] += 1
        # ---- verdicts per job ----
        for r in out["results"]:
            j = meta[r["id"]]
            expect = j.get("_expect", "hold")
            cov["states"] += r["paths"]
            cov["transitions"] += r["decisions"] + r["asserts"]
            cov["branch_decisions"] = cov.get("branch_decisions", 0) + r["decisions"]
            cov["pruned_paths"] += r["pruned"]
            cov["obligations"] += r["asserts"]
            cov["discharged"] += r["discharged"]
            cov["solver_queries"]["total"] += r["queries"]
            cov["solver_queries"]["sat"] += r["sat"]
            cov["solver_queries"]["unsat"] += r["unsat"]
            cov["solver_queries"]["unknown"] += r["unknown"]
            cov["solver_time_s"] += r["solver_s"]
            for f, n in r["funcs"].items():
                cov["functions_encoded"][f] = cov["functions_encoded"].get(f, 0) + n
            for f, n in r["stubs"].items():
                cov["stubs_hit"][f] = cov["stubs_hit"].get(f, 0) + n
            for c, n in r["covers"].items():
                cov["cover_points"][r["id"] + ":" + c] = n
            for lab, (posed, done) in (r.get("labels") or {}).items():
                key = j.get("_obligation", "O") + ":" + lab
                a = cov["obligation_labels"].setdefault(key, [0, 0])
                a[0] += posed
                a[1] += done
            jr = {"id": r["id"], "obligation": j.get("_obligation"), "func": r["func"], "conf": r.get("conf"), "expect": expect,
                  "paths": r["paths"], "pruned": r["pruned"], "asserts": r["asserts"], "discharged": r["discharged"],
                  "queries": r["queries"], "solver_s": round(r["solver_s"], 3), "wall_s": round(r["wall_s"], 3),
                  "unwind": r["unwind"], "violations": r["n_violations"]}
            cov["jobs"].append(jr)
            if r.get("unsupported"):
                problems.append((2, f"UNSUPPORTED {sname}/{r['id']}: {r['unsupported']}"))
            if r.get("engine_error"):
                problems.append((2, f"ENGINE-ERROR {sname}/{r['id']}: {r['engine_error']}"))
            if r.get("bound_exceeded"):
                problems.append((2, f"BOUND-EXCEEDED {sname}/{r['id']}: {r['bound_exceeded']}"))
            if r.get("max_paths_hit"):
                problems.append((2, f"BOUND-EXCEEDED {sname}/{r['id']}: max_paths reached"))
            if r.get("inconclusive"):
                cov["inconclusive"] += len(r["inconclusive"])
                problems.append((3, f"INCONCLUSIVE {sname}/{r['id']}: {r['inconclusive'][:3]}"))
            if r.get("blocked") and not j.get("_blocked_ok"):
                problems.append((2, f"BLOCKED {sname}/{r['id']}: {r['blocked']} paths blocked on a channel/mutex"))
            for c in j.get("_covers", []):
                if not r["covers"].get(c):
                    problems.append((2, f"VACUOUS {sname}/{r['id']}: cover point {c!r} never reached"))
            if r["asserts"] == 0 and expect != "twin" and not r.get("unsupported"):
                problems.append((2, f"VACUOUS {sname}/{r['id']}: no assertion was posed"))
            if r.get("sample_query") and len(cov["samples"]) < 6:
                cov["samples"].append({"job": r["id"], "kind": "discharged query (SMT-LIB2, answer unsat)", "smt2": r["sample_query"][:4000]})
            if r.get("sample_model") and len(cov["samples"]) < 12:
                cov["samples"].append({"job": r["id"], "kind": "model of one completed path (a concrete input on that path)",
                                       "path_decisions": r.get("sample_path_len"), "inputs": r["sample_model"]})
            # violations
            vs = r.get("violations") or []
            if expect == "twin":
                if r["n_violations"] == 0:
                    problems.append((2, f"VACUOUS {sname}/{r['id']}: reachability twin was not violated"))
                elif not any(confirmed.get((r["id"], i)) for i in range(len(vs))):
                    problems.append((3, f"ENGINE-MISMATCH {sname}/{r['id']}: twin violation did not reproduce natively"))
                continue
            if expect == "diagnostic":
                for i, v in enumerate(vs):
                    if confirmed.get((r["id"], i)):
                        cov.setdefault("diagnostics", []).append({"job": r["id"], "label": v["label"], "input": v["model"]})
                if vs:
                    notes.append(f"DIAGNOSTIC (not part of the verdict) {r['id']}: {sorted(set(v['label'] for v in vs))} violated, e.g. {vs[0].get('model')}")
                continue
            fid = expect[6:] if expect.startswith("known:") else None
            if fid and r["n_violations"] == 0 and not r.get("unsupported"):
                notes.append(f"known finding {fid} no longer reproduces in job {r['id']} (stale entry or fixed)")
            for i, v in enumerate(vs):
                if v.get("status") != "sat" or v.get("model") is None:
                    problems.append((3, f"INCONCLUSIVE {sname}/{r['id']}: assertion {v['label']} status {v.get('status')}"))
                    continue
                if not confirmed.get((r["id"], i)):
                    if native is not None:
                        problems.append((3, f"ENGINE-MISMATCH {sname}/{r['id']}: counterexample for {v['label']} did not reproduce natively: {v['model']}"))
                    continue
                allowed = j.get("_known_labels")
                if fid and fid in known_open and (allowed is None or v["label"] in allowed):
                    if fid not in known_printed:
                        known_printed.append(fid)
                        cov["known_findings_printed"].append({"finding": fid, "job": r["id"], "label": v["label"], "witness": v["model"]})
                    continue
                os.makedirs(replay_dir, exist_ok=True)
                h = hashlib.sha1(json.dumps([r["id"], v["label"], v["model"]], sort_keys=True).encode()).hexdigest()[:10]
                rp = os.path.join(replay_dir, f"{r['id']}_{v['label']}_{h}.json".replace("/", "_"))
                json.dump({"property": pid, "suite": sname, "job": r["id"], "func": r["func"], "conf": r.get("conf") or {},
                           "vector": v["model"], "label": v["label"], "kind": v["kind"], "msg": v.get("msg"), "stack": v.get("stack"),
                           "schedule": bool(j.get("_schedule_replay")),
                           "expect_native": "PANIC" if v["kind"] == "panic" else "ASSERT-FAIL:" + v["label"]}, open(rp, "w"), indent=1)
                violations.append({"job": r["id"], "label": v["label"], "replay": rp, "model": v["model"]})
        # ---- cross-solver (thorough) ----
        if tier == "thorough":
            files = []
            for r in out["results"]:
                files += r.get("query_files") or []
            if files:
                c, d, det = cross_check(files, wdir)
                cov["cross_solver"]["queries_rechecked"] += c
                cov["cross_solver"]["disagreements"] += d
                cov["cross_solver"]["details"] += det[:20]
                if "z3 5.1.0" not in " ".join(cov["solvers"]):
                    cov["solvers"] += ["z3 5.1.0 (re-check)", "cvc5 1.0 (re-check)"]
                if d:
                    problems.append((3, f"SOLVER-DISAGREEMENT {sname}: {det[:3]}"))
                inc = [x for x in det if x["answer"] != "sat"]
                if inc:
                    notes.append(f"{len(inc)} re-check queries were not decided by the second solver (timeout/unknown); the deciding verdict is z3 4.8.12's")
        if not args.keep:
            shutil.rmtree(os.path.join(wdir, "queries"), ignore_errors=True)

    # ---- known findings listed but never exercised ----
    for fid, d in known_open.items():
        if d.get("property") == pid and fid not in known_printed:
            notes.append(f"known finding {fid} is listed but was not reproduced by this run")
    for fid in known_printed:
        d = known_open[fid]
        log(f"KNOWN-FINDING: property={pid} {d.get('what', fid)}")
    cov["harness_functions"] = sorted(f[2:] for f in cov["functions_encoded"] if f.startswith("H:"))
    cov["functions_encoded"] = {f: n for f, n in sorted(cov["functions_encoded"].items()) if not f.startswith("H:")}
    cov["n_functions_encoded"] = len(cov["functions_encoded"])
    cov["notes"] = notes
    cov["problems"] = [p[1][:600] for p in problems]
    if problems or cov["inconclusive"]:
        cov["exhaustive"] = False
    cov["solver_time_s"] = round(cov["solver_time_s"], 3)
    cov["engine_load_s"] = round(cov["engine_load_s"], 2)
    if not cov["samples"]:
        cov["samples"] = [{"note": "no sample available (see problems)"}]
    ev["coverage"] = cov
    ev["violations"] = len(violations)
    ev["wall_s"] = round(time.time() - t0, 2)
    os.makedirs(os.path.join(VERIF, "evidence"), exist_ok=True)
    json.dump(ev, open(os.path.join(VERIF, "evidence", pid + ".json"), "w"), indent=1)
    log(f"[{pid}/{tier}] paths={cov['states']} decisions={cov['transitions']} obligations={cov['obligations']} discharged={cov['discharged']} "
        f"queries={cov['solver_queries']['total']} solver={cov['solver_time_s']}s validated={cov['traces_validated_against_impl']} "
        f"functions={cov['n_functions_encoded']} wall={ev['wall_s']}s")
    for n in notes:
        log("NOTE:", n)
    if violations:
        for v in violations:
            log(f"VIOLATION property={pid} replay={v['replay']}")
            log(f"  job={v['job']} assertion={v['label']} input={json.dumps(v['model'])}")
        sys.exit(1)
    if problems:
        for code, text in problems[:40]:
            log("PROBLEM:", text[:1500])
        sys.exit(max(p[0] for p in problems))
    if not args.keep:
        shutil.rmtree(wroot, ignore_errors=True)
    log(f"OK property={pid} held on everything explored")
    sys.exit(0)


def native_retry(suite, native_ov, req, want, wdir, tries=40, batch=50):
    """order-dependent counterexamples (Go map iteration order cannot be forced natively): re-run"""
    for t in range(tries):
        res, err = run_native(suite["pkg"], native_ov, [req] * batch, wdir, "retry")
        if res is None:
            return False
        if any(want in o for o in res):
            return True
    return False


def native_retry_sched(suite, native_ov, req, wdir, race=False, tries=6, batch=40):
    """schedule-dependent counterexamples (the goroutine schedule cannot be forced natively): re-run with random pauses"""
    for t in range(tries):
        res, err = run_native(suite["pkg"], native_ov, [req] * batch, wdir, "retry", race=race, jitter=True)
        if res is None:
            # an uncaught panic in a goroutine of the code under test ends the whole test binary: that is the failure
            if "panic:" in err and "goroutine" in err:
                return True
            return False
        if any(any(x.startswith("ASSERT-FAIL:") or x == "PANIC" for x in o) for o in res):
            return True
    return False


def do_replay(path):
    d = json.load(open(path))
    mod = importlib.import_module("props." + d["property"])
    suite = next(s for s in mod.PROPERTY["suites"] if s["name"] == d["suite"])
    wdir = os.path.join(WORK, f"replay.{os.getpid()}")
    shutil.rmtree(wdir, ignore_errors=True)
    os.makedirs(wdir)
    import atexit
    atexit.register(lambda: shutil.rmtree(wdir, ignore_errors=True))
    ov, native_ov, _ = build_overlay(d["property"], suite, wdir)
    os.environ["VERIF_PANIC_MSG"] = "1"
    req = {"func": d["func"], "conf": d["conf"], "vector": d["vector"]}
    if d.get("schedule"):
        # the goroutine schedule cannot be forced natively: replay by repetition
        ok = native_retry_sched(suite, native_ov, req, wdir, race=(d["kind"] == "race"))
        if ok:
            log(f"REPRODUCED (a native run of the same inputs fails; {d['expect_native']} in the symbolic run) for property={d['property']} job={d['job']}")
            return 1
        log("not reproduced")
        return 0
    res, err = run_native(suite["pkg"], native_ov, [req], wdir, "replay")
    if res is None:
        log("replay could not run:", err)
        return 2
    log("native observations:", res[0])
    if d["expect_native"] in res[0]:
        log(f"REPRODUCED {d['expect_native']} for property={d['property']} job={d['job']}")
        return 1
    log("not reproduced")
    return 0


if __name__ == "__main__":
    main()
